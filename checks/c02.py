"""C02 -- mass-balance and flow checks report exactly the violations."""
from __future__ import annotations

import itertools
import logging
import re

import numpy as np

PROPERTY = "C02"
FUNCTIONS = ["MFASystem._get_mass_balance", "MFASystem.check_mass_balance", "MFASystem._absolute_float_precision", "MFASystem.check_flows",
             "MFASystem._error_or_warning", "FlodymArray.__neg__", "FlodymArray.__add__", "FlodymArray.__radd__", "FlodymArray.__sub__"]
ASSUMPTIONS = ["explicit tolerance >= 0", "NaN modelled by an explicit flag per flow entry in the nan harnesses (IEEE comparison semantics; numpy max/abs propagate NaN)",
               "float64 machine epsilon 2^-52 for the default tolerance"]
OUTSIDE = ["integer-dtype flows", "float rounding inside the balance", "systems without any flow", "graphs beyond the bound"]
VARIANTS = 'two stocks at one process; check-change-check histories; NaN flags per flow entry (nan harnesses)'
BOUNDS = {
    "quick": dict(processes="sysenv + 2", flows="every multiset of 1..2 flows and every third multiset of 3 flows over the 6 ordered process pairs (parallel and opposing included)",
                  flow_dims="3 rotating assignments of dimension subsets/orders from {t,a,b}", stocks="none / at p1 / at sysenv / without process / two (one without process) / two at the same process",
                  modes="raise_error x {explicit symbolic tolerance, default tolerance}", lengths="t2 a2 b2"),
    "thorough": dict(processes="sysenv + 3", flows="multisets over 12 ordered pairs: all of size <= 2, every 9th of size 3, every 60th of size 4", flow_dims="3 assignments", stocks="as quick + stock at p2",
                     modes="two of the four per (graph, stocks), rotating", lengths="t2 a2 b2"),
}
for _t in BOUNDS.values():
    _t["variants_beyond_the_base_enumeration"] = VARIANTS
OPTS = {"quick": dict(shadow_every=40, max_paths=600, timeout_ms=40000), "thorough": dict(shadow_every=300, max_paths=600, timeout_ms=30000)}
LENS = dict(t=2, a=2, b=2)
DIMSETS = ["ta", "at", "t", "tab", "b", "", "bta", "a", "tb"]
EPS = 2.0 ** -52


def _flowsets(procs, kmax):
    pairs = [(p, q) for p in procs for q in procs if p != q]
    out = []
    for k in range(1, kmax + 1):
        out += list(itertools.combinations_with_replacement(pairs, k))
    return out


def configs(tier, seed):
    out = []
    procs = ["sysenv", "p1", "p2"] if tier == "quick" else ["sysenv", "p1", "p2", "p3"]
    fsets = _flowsets(procs, 3 if tier == "quick" else 4)
    if tier == "thorough":
        fsets = [f for i, f in enumerate(fsets) if len(f) < 3 or (len(f) == 3 and i % 9 == 0) or (len(f) == 4 and i % 60 == 0)]
    else:
        fsets = [f for i, f in enumerate(fsets) if len(f) < 3 or i % 3 == 0]
    # flows from a process to itself (an internal recycling loop): they cancel in the balance but count among the contributions
    fsets = list(fsets) + [(("p1", "p1"),), (("sysenv", "p1"), ("p1", "p1")), (("p1", "p1"), ("p1", "p2")), (("sysenv", "p1"), ("p1", "p1"), ("p1", "sysenv")),
                           (("sysenv", "sysenv"), ("sysenv", "p2"))]
    stockcfgs = [[], ["p1"], ["sysenv"], [None], ["p1", None], ["p1", "p1"]] + ([["p2", "p1"]] if tier == "thorough" else [])
    nrot = 3
    i = 0
    for fs in fsets:
        for rot in range(nrot):
            fdims = [DIMSETS[(rot * 3 + 2 * j + len(fs)) % len(DIMSETS)] for j in range(len(fs))]
            for sc in stockcfgs:
                i += 1
                # modes rotate so that every (graph, stocks) sees at least two of the four and every mode sees every graph shape
                for m in [(i + rot) % 4, (i + rot + 2) % 4]:
                    raise_error, default_tol = bool(m & 1), bool(m & 2)
                    key = "mb/" + "+".join(f"{a}>{b}:{d or '-'}" for (a, b), d in zip(fs, fdims)) + "/stocks=" + ",".join(str(s) for s in sc) + f"/raise={int(raise_error)}/deftol={int(default_tol)}"
                    out.append(dict(h="mass_balance", op=f"m{m}", key=key, procs=procs + (["idle"] if (i % 5 == 0) else []), flows=[list(p) for p in fs], fdims=fdims,
                                    stocks=sc, raise_error=raise_error, default_tol=default_tol))
    # NaN sub-check (one flag per flow entry) on small graphs
    for fs in _flowsets(["sysenv", "p1", "p2"], 2):
        fdims = ["a", "t"][: len(fs)]
        for raise_error in (True, False):
            key = "nan/" + "+".join(f"{a}>{b}:{d}" for (a, b), d in zip(fs, fdims)) + f"/raise={int(raise_error)}"
            out.append(dict(h="nan_balance", op="nan", key=key, procs=["sysenv", "p1", "p2"], flows=[list(p) for p in fs], fdims=fdims, stocks=["p1"],
                            raise_error=raise_error, default_tol=False))
    # histories on one system object: check, change the values, check again (verdict must follow the current values)
    for fs in _flowsets(["sysenv", "p1", "p2"], 2)[::5]:
        fdims = ["ta", "at"][: len(fs)]
        for first in ("mb_default", "cf", "mb_explicit"):
            for second in ("mb_default", "cf"):
                key = "history/" + "+".join(f"{a}>{b}:{d}" for (a, b), d in zip(fs, fdims)) + f"/{first}>{second}"
                out.append(dict(h="history", op="hist", key=key, procs=["sysenv", "p1", "p2"], flows=[list(p) for p in fs], fdims=fdims, stocks=["p1"],
                                first=first, second=second))
    # check_flows
    for fs in _flowsets(["sysenv", "p1", "p2"], 2):
        for rot in range(2):
            fdims = [["a", "t"], ["ta", "b"]][rot][: len(fs)]
            for raise_error in (False, True):
                for exc in ("none", "flow0", "proc_p1"):
                    for verbose in ((False, True) if rot == 0 else (False,)):
                        for nan in (False, True):
                            if nan and verbose:
                                continue
                            key = "cf/" + "+".join(f"{a}>{b}:{d}" for (a, b), d in zip(fs, fdims)) + f"/raise={int(raise_error)}/exc={exc}/verbose={int(verbose)}/nan={int(nan)}"
                            out.append(dict(h="check_flows", op="cf", key=key, procs=["sysenv", "p1", "p2"], flows=[list(p) for p in fs], fdims=fdims, stocks=["p1"],
                                            raise_error=raise_error, exc=exc, verbose=verbose, nan=nan))
    # exception strings that are a proper substring of another (non-excepted) process / flow name
    for fs in ([("p1", "p1b"), ("sysenv", "p1b")], [("sysenv", "p1"), ("p1b", "sysenv")], [("p1b", "sysenv")]):
        for raise_error in (False, True):
            for exc in ("proc_p1", "flow0", "none"):
                for nan in (False, True):
                    fdims = ["a", "t"][: len(fs)]
                    key = "cf_sub/" + "+".join(f"{a}>{b}:{d}" for (a, b), d in zip(fs, fdims)) + f"/raise={int(raise_error)}/exc={exc}/nan={int(nan)}"
                    out.append(dict(h="check_flows", op="cf", key=key, procs=["sysenv", "p1", "p1b"], flows=[list(p) for p in fs], fdims=fdims, stocks=["p1"],
                                    raise_error=raise_error, exc=exc, verbose=False, nan=nan, short_names=True))
    return out


class _Capture(logging.Handler):
    def __init__(self):
        super().__init__(level=logging.DEBUG)
        self.records = []

    def emit(self, record):
        self.records.append((record.levelno, record.getMessage()))


def dim_items(cfg):
    """items per letter of the system's dimensions"""
    it = {l: [f"{l}{i + 1}" for i in range(LENS[l])] for l in "tab"}
    if cfg.get("falsy_items"):
        it["t"] = list(range(LENS["t"]))
        it["b"] = [""] + [f"b{i + 1}" for i in range(1, LENS["b"])]
    if cfg.get("mixed_items"):
        # items of more than one Python type in one dimension: a text period next to integer years, a whole number next to a fraction
        it["t"] = (["pre-industrial", 1950, 2000, 2050])[: LENS["t"]]
        it["b"] = ([1, 2.5, 4, 5.5])[: LENS["b"]]
    return it


def _build(cfg, w, nan=False, fortran=False):
    from flodym import MFASystem, Flow, Process, Dimension, DimensionSet, StockArray
    from flodym.stocks import SimpleFlowDrivenStock

    dims = {l: Dimension(name={"t": "Time", "a": "Alpha", "b": "Beta"}[l], letter=l, items=[f"{l}{i + 1}" for i in range(LENS[l])]) for l in "tab"}
    if cfg.get("falsy_items"):
        # labels that are falsy in Python: periods counted from 0, an empty string
        dims["t"] = Dimension(name="Time", letter="t", items=list(range(LENS["t"])), dtype=int)
        dims["b"] = Dimension(name="Beta", letter="b", items=[""] + [f"b{i + 1}" for i in range(1, LENS["b"])])
    if cfg.get("mixed_items"):
        mi = dim_items(cfg)
        dims["t"] = Dimension(name="Time", letter="t", items=mi["t"])
        dims["b"] = Dimension(name="Beta", letter="b", items=mi["b"])
    allset = DimensionSet(dim_list=[dims[l] for l in "tab"])
    ids = list(range(len(cfg["procs"])))
    if cfg.get("permuted_ids") and len(ids) > 2:
        ids = [0] + ids[2:] + [1]  # a hand-assembled system: ids do not follow the order of the processes dict
    procs = {p: Process(name=p, id=i) for i, p in zip(ids, cfg["procs"])}
    flows, F = {}, {}
    for i, ((a, b), d) in enumerate(zip(cfg["flows"], cfg["fdims"])):
        name = f"{a} => {b} #{i}" if not cfg.get("short_names") else f"{a} => {b}"
        if cfg.get("name_style") == "runs":
            # names that differ only in the length of a run of blanks / dashes (distinct names, distinct files)
            name = f"{a} =>{' ' * (i + 1)}{b}{' -' * (i % 2)} flow"
        name = cfg.get("name_prefix", "") + name + cfg.get("name_suffix", "")
        shape = tuple(LENS[l] for l in d)
        V = w.arr(f"f{i}", shape)
        if nan:
            for idx in np.ndindex(*shape):
                V[idx] = w.with_nan(V[idx], w.boolean(f"nan_f{i}" + "".join(f"_{k}" for k in idx)))
        F[name] = (a, b, d, V)
        vals = V.copy()
        if fortran and vals.ndim >= 2 and i % 2 == 0:
            vals = np.asfortranarray(vals).view(type(vals))  # column-major layout, same labels
        flows[name] = Flow(dims=DimensionSet(dim_list=[dims[l] for l in d]), from_process=procs[a], to_process=procs[b], name=name, values=vals)
    stocks, S = {}, {}
    for j, sp in enumerate(cfg["stocks"]):
        d = ["ta", "t", "tab"][j % 3]
        ds = DimensionSet(dim_list=[dims[l] for l in d])
        shape = ds.shape
        I, O, ST = w.arr(f"s{j}_in", shape), w.arr(f"s{j}_out", shape), w.arr(f"s{j}_stock", shape)
        name = cfg.get("name_prefix", "") + f"stock{j}"
        if cfg.get("stock_named_like_flow") and j == 0 and F:
            name = list(F)[0]  # flow names and stock names are separate name spaces
        stocks[name] = SimpleFlowDrivenStock(dims=ds, inflow=StockArray(dims=ds, values=I.copy()), outflow=StockArray(dims=ds, values=O.copy()),
                                             stock=StockArray(dims=ds, values=ST.copy()), name=name, process=procs[sp] if sp else None)
        S[name] = (sp, d, I, O, ST)
    mfa = MFASystem(dims=allset, parameters={}, processes=procs, flows=flows, stocks=stocks)
    return mfa, F, S


def _balances(cfg, w, F, S):
    """oracle: per process, the balance per label of the dimensions common to all its contributions"""
    contrib = {p: [] for p in cfg["procs"]}
    for name, (a, b, d, V) in F.items():
        contrib[a].append((-1, d, V))
        contrib[b].append((+1, d, V))
    for name, (sp, d, I, O, ST) in S.items():
        if sp is None:
            continue
        contrib[sp].append((-1, d, I - O))
        contrib["sysenv"].append((+1, d, I - O))
    out = {}
    for p, parts in contrib.items():
        if not parts:
            out[p] = None
            continue
        common = [l for l in parts[0][1] if all(l in q[1] for q in parts)]
        cells = {}
        for lab in itertools.product(*[range(LENS[l]) for l in common]):
            tot = 0
            for sign, d, V in parts:
                for idx in np.ndindex(*np.shape(V)):
                    if all(idx[d.index(l)] == k for l, k in zip(common, lab)):
                        tot = tot + sign * V[idx]
            cells[lab] = tot
        out[p] = cells
    return out


def _maxabs(w, vals):
    """the largest magnitude among the entries that are numbers (NaN entries are reported by the checks, they do not
    scale the tolerance); 0 when there is none"""
    m = None
    for v in vals:
        a = w.ite(w.isnan(v), 0, w.abs(v))
        m = a if m is None else w.max(m, a)
    return 0 if m is None else m


def _any(w, conds):
    conds = list(conds)
    return w.or_(*conds) if conds else False


def _all(w, conds):
    conds = list(conds)
    return w.and_(*conds) if conds else True


def run(cfg, w):
    h = cfg["h"]
    root = logging.getLogger()
    cap = _Capture()
    old_level = root.level
    root.addHandler(cap)
    root.setLevel(logging.INFO)
    try:
        _run(cfg, w, h, cap)
    finally:
        root.removeHandler(cap)
        root.setLevel(old_level)


def _run(cfg, w, h, cap):
    mfa, F, S = _build(cfg, w, nan=(h == "nan_balance" or cfg.get("nan", False)))
    if h in ("mass_balance", "nan_balance"):
        B = _balances(cfg, w, F, S)
        if cfg["default_tol"]:
            tol_arg = None
            mf = _maxabs(w, [v for (_a, _b, _d, V) in F.values() for v in V.flat])
            ms = _maxabs(w, [v for (_sp, _d, _I, _O, ST) in S.values() for v in ST.flat])
            tol = 100 * EPS * (w.max(mf, ms) if ms is not None else mf)
        else:
            tol = w.real("tol", default=0.5)
            w.assume(w.ge(tol, 0))
            tol_arg = tol
        raised = None
        try:
            mfa.check_mass_balance(tolerance=tol_arg, raise_error=cfg["raise_error"])
        except ValueError as e:
            raised = str(e)
            if not raised.startswith("Mass balance check failed"):
                w.ob("no_unexpected_exception", False, info=f"ValueError: {raised[:200]}")
                return
        warnings = [m for lv, m in cap.records if lv == logging.WARNING]
        success_logged = any("Success" in m for lv, m in cap.records if lv == logging.INFO)
        over = {p: (_any(w, [w.gt(w.abs(v), tol) for v in cells.values()]) if cells else False) for p, cells in B.items()}
        isnan = {p: (_any(w, [w.isnan(v) for v in cells.values()]) if cells else False) for p, cells in B.items()}
        bad = {p: w.or_(over[p], isnan[p]) for p in B}
        any_bad = _any(w, bad.values())
        if cfg["raise_error"]:
            w.ob("raises_iff_some_balance_exceeds_tolerance_or_is_nan", w.iff(raised is not None, any_bad))
            w.ob("no_warning_in_raise_mode", len(warnings) == 0)
            msg = raised
        else:
            w.ob("never_raises_with_raise_error_false", raised is None)
            w.ob("warns_iff_some_balance_exceeds_tolerance_or_is_nan", w.iff(len(warnings) >= 1, any_bad))
            w.ob("at_most_one_warning", len(warnings) <= 1)
            msg = warnings[0] if warnings else None
        w.ob("success_logged_iff_nothing_reported", success_logged == (msg is None))
        if msg is not None:
            named = set(re.findall(r"(\w+) \(max error", msg))
            for p in B:
                w.ob(f"process_named_iff_failed[{p}]", w.iff(p in named, bad[p]))
        # the system is not altered by the check
        for name, (a, b, d, V) in F.items():
            for idx in np.ndindex(*np.shape(V)):
                w.ob(f"flow_unchanged[{name}]{list(idx)}", w.same(mfa.flows[name].values[idx], V[idx]))
        return
    if h == "history":
        # step 1 on the original values (outcome irrelevant here), then new values, then the checked call
        try:
            if cfg["first"] == "mb_default":
                mfa.check_mass_balance(raise_error=False)
            elif cfg["first"] == "mb_explicit":
                mfa.check_mass_balance(tolerance=1.0, raise_error=False)
            else:
                mfa.check_flows()
        except Exception as e:
            w.ob("first_check_does_not_raise", False, info=repr(e)[:100])
            return
        cap.records.clear()
        F2 = {}
        for i, (name, (a, b, d, V)) in enumerate(F.items()):
            V2 = w.arr(f"g{i}", np.shape(V))
            mfa.flows[name].set_values(V2.copy())
            F2[name] = (a, b, d, V2)
        S2 = {}
        for j, (name, (sp, d, I, O, ST)) in enumerate(S.items()):
            I2, O2, ST2 = w.arr(f"t{j}_in", np.shape(I)), w.arr(f"t{j}_out", np.shape(O)), w.arr(f"t{j}_stock", np.shape(ST))
            mfa.stocks[name].inflow.set_values(I2.copy())
            mfa.stocks[name].outflow.set_values(O2.copy())
            mfa.stocks[name].stock.set_values(ST2.copy())
            S2[name] = (sp, d, I2, O2, ST2)
        mf = _maxabs(w, [v for (_a, _b, _d, V) in F2.values() for v in V.flat])
        ms = _maxabs(w, [v for (_sp, _d, _I, _O, ST) in S2.values() for v in ST.flat])
        tol = 100 * EPS * w.max(mf, ms)
        if cfg["second"] == "mb_default":
            B = _balances(cfg, w, F2, S2)
            mfa.check_mass_balance(raise_error=False)
            warnings = [m for lv, m in cap.records if lv == logging.WARNING]
            any_bad = _any(w, [w.gt(w.abs(v), tol) for cells in B.values() if cells for v in cells.values()])
            w.ob("second_check_uses_current_values", w.iff(len(warnings) >= 1, any_bad))
        else:
            mfa.check_flows()
            warnings = [m for lv, m in cap.records if lv == logging.WARNING]
            any_neg = _any(w, [w.lt(v, -tol) for (_a, _b, _d, V) in F2.values() for v in V.flat])
            w.ob("second_check_uses_current_values", w.iff(len(warnings) >= 1, any_neg))
        return
    if h == "check_flows":
        exc = {"none": [], "flow0": [list(F)[0]], "proc_p1": ["p1"]}[cfg["exc"]]
        checked = {n: v for n, v in F.items() if n not in exc and v[0] not in exc and v[1] not in exc}
        mf = _maxabs(w, [v for (_a, _b, _d, V) in F.values() for v in V.flat])
        ms = _maxabs(w, [v for (_sp, _d, _I, _O, ST) in S.values() for v in ST.flat])
        tol = 100 * EPS * w.max(mf, ms)
        raised = None
        try:
            mfa.check_flows(exceptions=exc, raise_error=cfg["raise_error"], verbose=cfg["verbose"])
        except ValueError as e:
            raised = str(e)
        warnings = [m for lv, m in cap.records if lv == logging.WARNING]
        success_logged = any("Success" in m for lv, m in cap.records if lv == logging.INFO)
        hasnan = {n: _any(w, [w.isnan(v) for v in V.flat]) for n, (_a, _b, _d, V) in checked.items()}
        hasneg = {n: _any(w, [w.lt(v, -tol) for v in V.flat]) for n, (_a, _b, _d, V) in checked.items()}
        offending = {n: w.or_(hasnan[n], hasneg[n]) for n in checked}
        any_off = _any(w, offending.values())
        msgs = [raised] if raised is not None else warnings
        if cfg["raise_error"]:
            w.ob("raises_iff_some_checked_flow_offends", w.iff(raised is not None, any_off))
        else:
            w.ob("never_raises_with_raise_error_false", raised is None)
            for n in F:
                named_nan = any(m.startswith(f"NaN values found in flow {n}!") for m in msgs)
                named_neg = any(m.startswith(f"Negative value in flow {n}!") for m in msgs)
                if n in checked:
                    w.ob(f"nan_reported_iff_present[{n}]", w.iff(named_nan, hasnan[n]))
                    w.ob(f"negative_reported_iff_present[{n}]", w.iff(named_neg, hasneg[n]))
                else:
                    w.ob(f"excepted_flow_never_reported[{n}]", not named_nan and not named_neg)
        for m in msgs:
            mm = re.match(r"(NaN values found in|Negative value in) flow (.*?)!", m)
            ok = bool(mm) and mm.group(2) in checked
            w.ob("only_checked_flows_are_named", ok, info=m[:120])
            if ok:
                n = mm.group(2)
                w.ob(f"named_flow_really_offends[{n}]", hasnan[n] if mm.group(1).startswith("NaN") else hasneg[n])
                if cfg["verbose"] and mm.group(1).startswith("Negative"):
                    a, b, d, V = F[n]
                    listed = set(tuple(x.strip() for x in line.strip().split(",")) for line in m.split("Items:")[1].strip().splitlines()) if "Items:" in m else set()
                    for idx in np.ndindex(*np.shape(V)):
                        lab = tuple(f"{l}{k + 1}" for l, k in zip(d, idx))
                        w.ob(f"verbose_lists_exactly_the_negative_entries[{n}]{list(idx)}", w.iff(lab in listed, w.lt(V[idx], -tol)))
        w.ob("success_logged_iff_nothing_reported", w.iff(success_logged, w.not_(any_off)) if not cfg["raise_error"] or raised is None else True)
        return
    raise RuntimeError(h)

"""C01 -- arithmetic between arrays matches dimensions by label, never by axis position.

Symbolic: every entry of x and y, the scalar k.  Enumerated: ordered dimension subsets of a
universe for both operands (incl. 0-dim), lengths, operator form.
Oracle: written from the property statement, by label, over the input symbols only.
"""
from __future__ import annotations

import itertools

import numpy as np

from svx.configs import ordered_subsets, length_patterns, make_dimset, make_dim, label_tuples, at, lens_key

PROPERTY = "C01"
FUNCTIONS = ["FlodymArray.__add__", "FlodymArray.__mul__", "FlodymArray.__truediv__", "FlodymArray._prepare_other",
             "FlodymArray.sum_values_to", "DimensionSet.intersect_with", "DimensionSet.union_with", "FlodymArray.__rsub__",
             "FlodymArray.__rtruediv__", "FlodymArray.__pow__", "FlodymArray.minimum", "FlodymArray.maximum"]
ASSUMPTIONS = ["operands' dimensions come from one common dimension set (same letter => same Dimension object)",
               "x**y: only congruence of the uninterpreted pow(base, exponent) is used"]
OUTSIDE = ["more than 4 dimensions", "dimension lengths above 3", "operands with equal letters but different items",
           "IEEE rounding, inf, integer dtypes"]
VARIANTS = 'second dimension set (same letters and lengths, other items) for add / mul / div / minimum; where= / out= arithmetic; three memory layouts; numpy scalar on the left (float64 runs)'
BOUNDS = {
    "quick": dict(universe="abc", lengths=[1, 2], operand_dims="every ordered subset of the universe incl. empty (16 x 16 pairs)",
                  operators="add sub mul div pow minimum maximum; x.k and k.x for + - * /; x**k; neg abs __abs__ sign"),
    "thorough": dict(universe="abcd", lengths="patterns (2,2,2,2) (1,2,3,2) (2,2,3,3)", operand_dims="every ordered subset (65 x 65 pairs)",
                     operators="as quick"),
}
for _t in BOUNDS.values():
    _t["variants_beyond_the_base_enumeration"] = VARIANTS
# dtype shadow: every shadowed configuration is run once more on integer-dtype arrays (differential concrete run)
DTYPE_SHADOW = lambda cfg: cfg["op"] != "pow"  # int ** negative int raises in numpy itself
# reflected number-array operations also run on float64 every time (with a numpy scalar on the left: numpy's own dispatch)
SHADOW_ALWAYS = lambda cfg: cfg["h"] == "unop" and cfg["op"].startswith("k_")
OPTS = {"quick": dict(shadow_every=40), "thorough": dict(shadow_every=200)}

BINOPS = ["add", "sub", "mul", "div", "pow", "min", "max"]
SCALAR_OPS = ["add_k", "k_add", "sub_k", "k_sub", "mul_k", "k_mul", "div_k", "k_div", "pow_k", "min_k", "max_k"]
UNARY = ["neg", "abs_m", "abs_f", "sign"]


def configs(tier, seed):
    out = []
    if tier == "quick":
        U = "abc"
        pats = None
        choices = [1, 2]
    else:
        U = "abcd"
        pats = [dict(a=2, b=2, c=2, d=2), dict(a=1, b=2, c=3, d=2), dict(a=2, b=2, c=3, d=3)]
        choices = None
    subs = ordered_subsets(U)
    for xd in subs:
        for yd in subs:
            used = sorted(set(xd) | set(yd))
            lp = list(length_patterns(used, choices)) if pats is None else _dedupe([{l: p[l] for l in used} for p in pats])
            for lens in lp:
                size = int(np.prod([lens[l] for l in used])) if used else 1
                if size > 54:
                    continue
                for op in BINOPS:
                    out.append(dict(h="binop", key=f"binop/{op}/x={xd or '-'}/y={yd or '-'}/{lens_key(lens)}", xd=xd, yd=yd, lens=lens, op=op))
                    if op in ("sub", "div", "add", "mul") and xd and yd and tuple(xd) != tuple(yd) and lens == lp[0]:
                        # the right operand is an instance of a subclass (Parameter, Flow, StockArray), the left one a plain
                        # FlodymArray (what every arithmetic result is): Python asks the subclass's reflected method first
                        out.append(dict(h="binop", key=f"binop/{op}/x={xd}/y={yd}/{lens_key(lens)}/y_is_Parameter", xd=xd, yd=yd, lens=lens, op=op, ycls="Parameter"))
    for xd in subs:
        lp = list(length_patterns(sorted(xd), choices)) if pats is None else _dedupe([{l: p[l] for l in xd} for p in pats])
        for lens in lp:
            for op in SCALAR_OPS + UNARY:
                for how in (["dims", "scalar"] if not xd else ["dims"]):
                    out.append(dict(h="unop", key=f"unop/{op}/x={xd or '-'}/{how}/{lens_key(lens)}", xd=xd, lens=lens, op=op, how=how))
    return out


def _dedupe(ds):
    seen, out = set(), []
    for d in ds:
        k = tuple(sorted(d.items()))
        if k not in seen:
            seen.add(k)
            out.append(d)
    return out


def _mk(w, name, letters, lens, dims, how="dims", layout=0, cls=None):
    from flodym import FlodymArray
    import flodym

    if cls:
        FlodymArray = getattr(flodym, cls)

    shape = tuple(lens[l] for l in letters)
    vals = w.arr(name, shape)
    if not letters and how == "scalar":
        return FlodymArray.scalar(vals[()]), vals
    from svx.configs import relayout

    return FlodymArray(dims=make_dimset(letters, lens, dims), values=relayout(vals.copy(), layout)), vals


def _pow(w, a, b):
    if w.sym:
        from svx.sym import _sr

        return _sr(a) ** _sr(b)
    with np.errstate(all="ignore"):
        return np.float64(a) ** np.float64(b)


def _sign(w, a):
    if w.sym:
        from svx.sym import _sign1

        return _sign1(a)
    return float(np.sign(a))


def _check_dims(w, res, letters, lens, dims):
    w.ob("letters", tuple(res.dims.letters) == tuple(letters), info=f"got {res.dims.letters} want {tuple(letters)}")
    w.ob("items", all(res.dims[l].items == dims[l].items for l in letters if l in res.dims.letters))
    w.ob("shape", tuple(np.shape(res.values)) == tuple(lens[l] for l in letters), info=f"values shape {np.shape(res.values)}")
    return tuple(res.dims.letters) == tuple(letters) and tuple(np.shape(res.values)) == tuple(lens[l] for l in letters)


def run(cfg, w):
    lens = cfg["lens"]
    dims = {l: make_dim(l, n) for l, n in lens.items()}
    xd = cfg["xd"]
    op = cfg["op"]
    lay = sum(map(ord, cfg["key"])) % 3  # memory layout of the operands varies with the configuration
    x, X = _mk(w, "x", xd, lens, dims, cfg.get("how", "dims"), layout=lay)
    if cfg["h"] == "binop":
        yd = cfg["yd"]
        y, Y = _mk(w, "y", yd, lens, dims, layout=(lay + 1) % 3, cls=cfg.get("ycls"))
        if op in ("add", "sub", "min", "max"):
            out = [l for l in xd if l in yd]
        elif op in ("mul", "div"):
            out = list(xd) + [l for l in yd if l not in xd]
        else:
            out = list(xd)
        must_raise = op == "pow" and any(l not in xd for l in yd)
        try:
            if op == "add":
                res = x + y
            elif op == "sub":
                res = x - y
            elif op == "mul":
                res = x * y
            elif op == "div":
                res = x / y
            elif op == "pow":
                res = x**y
            elif op == "min":
                res = x.minimum(y)
            elif op == "max":
                res = x.maximum(y)
        except Exception as e:
            w.ob("raises_only_when_required", must_raise, info=f"{type(e).__name__}: {e}")
            return
        if must_raise:
            w.ob("must_raise", False, info="x**y accepted an exponent with a dimension x lacks")
            return
        if not _check_dims(w, res, out, lens, dims):
            return
        xo = [l for l in xd if l not in out]
        yo = [l for l in yd if l not in out]
        for lab in label_tuples(out, lens):
            got = res.values[tuple(lab[l] for l in out)]
            if op in ("add", "sub", "min", "max"):
                sx = 0
                for rest in label_tuples(xo, lens):
                    sx = sx + at(X, xd, {**lab, **rest})
                sy = 0
                for rest in label_tuples(yo, lens):
                    sy = sy + at(Y, yd, {**lab, **rest})
                want = {"add": lambda: sx + sy, "sub": lambda: sx - sy, "min": lambda: w.min(sx, sy), "max": lambda: w.max(sx, sy)}[op]()
            else:
                xv = at(X, xd, lab)
                yv = at(Y, yd, lab)
                if op == "mul":
                    want = xv * yv
                elif op == "div":
                    want = xv / yv
                else:
                    want = _pow(w, xv, yv)
            w.ob_eq(f"entry{[lab[l] for l in out]}", got, want)
        # inputs untouched (also part of C15, cheap to assert here)
        w.ob("x_unchanged", all(w.same(a, b) is True or (not w.sym and a == b) for a, b in zip(np.ravel(x.values), np.ravel(X))))
        if op in ("add", "mul", "div", "min") and out:
            # the same operation once more in this process, on arrays over ANOTHER dimension set with the same letters and
            # lengths but other items (historic years, then scenario years): the result carries the operands' own items
            from flodym import FlodymArray

            twin = {l: make_dim(l, n, items=[f"{l}{k + 1}bis" for k in range(n)]) for l, n in lens.items()}
            x2 = FlodymArray(dims=make_dimset(xd, lens, twin), values=X.copy())
            y2 = FlodymArray(dims=make_dimset(yd, lens, twin), values=Y.copy())
            res2 = {"add": lambda: x2 + y2, "mul": lambda: x2 * y2, "div": lambda: x2 / y2, "min": lambda: x2.minimum(y2)}[op]()
            w.ob("second_dimension_set:letters", tuple(res2.dims.letters) == tuple(out))
            w.ob("second_dimension_set:items", all(res2.dims[l].items == twin[l].items for l in out if l in res2.dims.letters),
                 info=str({l: res2.dims[l].items for l in res2.dims.letters}))
            for lab in label_tuples(out, lens):
                idx = tuple(lab[l] for l in out)
                if np.shape(res2.values) == np.shape(res.values):
                    w.ob(f"second_dimension_set:entry{list(idx)}", w.same(res2.values[idx], res.values[idx]) if w.sym else bool(res2.values[idx] == res.values[idx] or (res2.values[idx] != res2.values[idx])))
        return
    # ---- number operands / unary
    k = w.real("k") if op not in UNARY else None
    if k is not None and not w.sym and op.startswith("k_"):
        # float64 runs (shadow, replay): the number on the left is a numpy scalar, as np.sum / .max() / sum_values() return it
        k = np.float64(k)
    from svx.sym import SymReal

    f = {
        "add_k": (lambda: x + k, lambda v: v + k), "k_add": (lambda: k + x, lambda v: k + v),
        "sub_k": (lambda: x - k, lambda v: v - k), "k_sub": (lambda: k - x, lambda v: k - v),
        "mul_k": (lambda: x * k, lambda v: v * k), "k_mul": (lambda: k * x, lambda v: k * v),
        "div_k": (lambda: x / k, lambda v: v / k), "k_div": (lambda: k / x, lambda v: k / v),
        "pow_k": (lambda: x**k, lambda v: _pow(w, v, k)),
        "min_k": (lambda: x.minimum(k), lambda v: w.min(v, k)), "max_k": (lambda: x.maximum(k), lambda v: w.max(v, k)),
        "neg": (lambda: -x, lambda v: -v), "abs_m": (lambda: x.abs(), lambda v: abs(v)), "abs_f": (lambda: abs(x), lambda v: abs(v)),
        "sign": (lambda: x.sign(), lambda v: _sign(w, v)),
    }[op]
    res = f[0]()
    if not _check_dims(w, res, list(xd), lens, dims):
        return
    for lab in label_tuples(xd, lens):
        idx = tuple(lab[l] for l in xd)
        w.ob_eq(f"entry{list(idx)}", res.values[idx], f[1](X[idx]))

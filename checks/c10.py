"""C10 -- inflow-driven and stock-driven models are inverse; both solvers agree."""
from __future__ import annotations

import numpy as np

from checks import dsm

PROPERTY = "C10"
FUNCTIONS = ["StockDrivenDSM._compute_inflow_manual", "StockDrivenDSM._compute_inflow_lapack", "InflowDrivenDSM._compute_stock",
             "DynamicStockModel._compute_outflow", "StockDrivenDSM._compute_cohorts_and_inflow"]
ASSUMPTIONS = ["every cohort's first-interval survival share >= 1/20 (the property's precondition)", "time items strictly increasing",
               "scipy.linalg.solve_triangular satisfies its documented contract (fresh x with tri(a) x = b); LAPACK itself is trusted"]
OUTSIDE = ["n beyond the bound", "IEEE rounding / conditioning of the triangular solve"]
VARIANTS = 'converted_real: shipped lifetime classes with non-default settings, the second model obtained with to_stock_type; arrays as transposed views; shared lifetime object re-parameterised between the constructions; stock-driven model computed (and read) before; 17 and 33 time items on concrete 0/1 tables; the inflow-driven model converted from the computed stock-driven one / computed before / built on filled arrays; a label dimension lettered c and as long as the time dimension'
BOUNDS = {"quick": dict(n=[3, 4], extra=["-", "r2"], grids=dsm.GRIDS), "thorough": dict(n=[3, 4, 5, 6], extra=["-", "r2", "r2xp2"], grids=dsm.GRIDS)}
for _t in BOUNDS.values():
    _t["variants_beyond_the_base_enumeration"] = VARIANTS
# dtype shadow: every shadowed configuration is run once more on integer-dtype arrays (differential concrete run)
# (not where the harness makes an input array the result buffer of the other model: an integer buffer would truncate the results)
DTYPE_SHADOW = lambda cfg: cfg["h"] not in ("fixed_concrete", "converted_real") and not cfg.get("idsm")
OPTS = {"quick": dict(shadow_every=3, timeout_ms=20000), "thorough": dict(shadow_every=5, timeout_ms=120000)}


def configs(tier, seed):
    out = []
    ns = [3, 4] if tier == "quick" else [3, 4, 5, 6]
    extras = [{}, {"r": 2}] if tier == "quick" else [{}, {"r": 2}, {"r": 2, "p": 2}]
    for grid in dsm.GRIDS:
        for n in ns:
            for extra in extras:
                if n >= 5 and len(extra) > 1:
                    continue
                ek = "x".join(f"{l}{k}" for l, k in extra.items()) or "-"
                for solver in ("manual", "lapack"):
                    out.append(dict(h="in_to_stock_to_in", op=solver, key=f"in_to_stock_to_in/{solver}/grid={grid}/n={n}/extra={ek}", solver=solver, grid=grid, n=n, extra=extra))
                    out.append(dict(h="stock_to_in_to_stock", op=solver, key=f"stock_to_in_to_stock/{solver}/grid={grid}/n={n}/extra={ek}", solver=solver, grid=grid, n=n, extra=extra))
                out.append(dict(h="solvers_agree", op="both", key=f"solvers_agree/grid={grid}/n={n}/extra={ek}", grid=grid, n=n, extra=extra))
    if tier == "quick":
        for solver in ("manual", "lapack"):
            for extra in ({"r": 2, "p": 2}, {"r": 2, "p": 3}):
                ek = "x".join(f"{l}{k}" for l, k in extra.items())
                out.append(dict(h="in_to_stock_to_in", op=solver + "2d", key=f"in_to_stock_to_in/{solver}/grid=uneven/n=3/extra={ek}", solver=solver, grid="uneven", n=3, extra=extra))
        out.append(dict(h="solvers_agree", op="both2d", key="solvers_agree/grid=const/n=3/extra=r2xp3", grid="const", n=3, extra={"r": 2, "p": 3}))
    # every array of the stock-driven model handed over as a transposed view (two label dimensions)
    for solver in ("manual", "lapack"):
        for extra in ({"r": 2, "p": 2}, {"r": 2, "p": 3}) if tier == "quick" else ({"r": 2, "p": 2}, {"r": 2, "p": 3}, {"r": 3, "p": 2, "q": 2}):
            ek = "x".join(f"{l}{k}" for l, k in extra.items())
            out.append(dict(h="in_to_stock_to_in", op=solver + "layout", key=f"in_to_stock_to_in/{solver}/grid=const/n=3/extra={ek}/arrays=transposed_views", solver=solver, grid="const", n=3, extra=extra, prealloc=True))
    # the stock-driven model object was computed before with another prescribed stock, and its cohort tables were read
    for solver in ("manual", "lapack"):
        for extra in ({}, {"r": 2}):
            ek = "x".join(f"{l}{k}" for l, k in extra.items()) or "-"
            out.append(dict(h="in_to_stock_to_in", op=solver + "again", key=f"in_to_stock_to_in/{solver}/grid=uneven/n=3/extra={ek}/stock_driven_model_computed_before", solver=solver, grid="uneven", n=3, extra=extra, again=True))
    # a label dimension lettered c (as in "cohort") and as long as the time dimension
    for solver in ("manual", "lapack"):
        out.append(dict(h="stock_to_in_to_stock", op=solver + "c", key=f"stock_to_in_to_stock/{solver}/grid=uneven/n=3/extra=c3", solver=solver, grid="uneven", n=3, extra={"c": 3}))
    # the inflow-driven model does not start from fresh zero arrays: converted from the computed stock-driven model,
    # computed before with another inflow, or built on arrays that hold old results
    for solver in ("manual", "lapack"):
        for how in ("to_stock_type", "computed_before", "filled_arrays"):
            for extra in ({}, {"r": 2}):
                ek = "x".join(f"{l}{k}" for l, k in extra.items()) or "-"
                out.append(dict(h="stock_to_in_to_stock", op=solver + how, key=f"stock_to_in_to_stock/{solver}/grid=uneven/n=3/extra={ek}/inflow_driven_model={how}", solver=solver, grid="uneven", n=3, extra=extra, idsm=how))
    # one lifetime model object shared by both models, its parameters set again between the two constructions
    for solver in ("manual", "lapack"):
        for first in ("idsm", "sdsm"):
            for extra in ({}, {"r": 2}):
                ek = "x".join(f"{l}{k}" for l, k in extra.items()) or "-"
                out.append(dict(h="shared_lifetime", op=solver + first, key=f"shared_lifetime/{solver}/built_first={first}/extra={ek}", solver=solver, first=first, grid="uneven", n=3, extra=extra))
    # the shipped lifetime classes with non-default settings, the second model obtained with to_stock_type (which must hand
    # over the lifetime model with its settings): inflow-driven -> stock-driven and back
    for solver in ("manual", "lapack"):
        for lt, prm in (("NormalLifetime", ["mean", "std"]), ("FixedLifetime", ["mean"])):
            for ia, npts in (("end", 1), ("start", 1), ("middle", 2)):
                if tier == "quick" and lt == "FixedLifetime" and ia == "start":
                    continue
                out.append(dict(h="converted_real", op=solver + lt, key=f"converted_real/{solver}/{lt}/{ia}{npts}", solver=solver, lt=lt, prm=prm, inflow_at=ia, npts=npts, grid="uneven", n=3, extra={"r": 2}))
    from checks.c09 import FIXED_SCHEDULES

    for sched in FIXED_SCHEDULES:
        for grid in ("unit", "step2"):
            for solver in ("manual", "lapack"):
                out.append(dict(h="fixed_concrete", op="fx" + solver, key=f"fixed_concrete/{solver}/{sched}/grid={grid}", kind="sdsm_" + solver, solver=solver, sched=sched, grid=grid, n=6, extra={"r": 2}))
    # long time dimensions (17, 33 and, in the thorough tier, 65 and 100 items) on concrete 0/1 survival tables: every
    # obligation is linear in the symbolic stock, so the length costs little (solver loops that work in blocks, look-back
    # windows and the like have their boundaries far beyond the small symbolic grids)
    for n in ([17, 33] if tier == "quick" else [17, 32, 33, 64, 65, 100]):
        for solver in ("manual", "lapack"):
            for sched in ("zigzag", "growing"):
                out.append(dict(h="fixed_concrete", op="fxlong" + solver, key=f"fixed_concrete/{solver}/{sched}/grid=unit/n={n}", kind="sdsm_" + solver, solver=solver, sched=sched, grid="unit", n=n, extra={}))
    return out


def ctx_setup(cfg, c):
    c.purify_div = True


def _cmp(w, tag, a, b, chain=True):
    a, b = np.asarray(a), np.asarray(b)
    if a.shape != b.shape:
        w.ob(f"{tag}:shape", False, info=f"{a.shape} vs {b.shape}")
        return
    # time-major order so that proved rows serve as lemmas for later rows
    for idx in np.ndindex(*a.shape):
        w.ob_eq(f"{tag}{list(idx)}", a[idx], b[idx], chain=chain)


def _zeros(w, shape):
    if w.sym:
        from svx.sym import SymArr

        return np.zeros(shape, dtype=object).view(SymArr)
    return np.zeros(shape)


def _fixed_roundtrip(w, st, tab, dt, dims):
    """stock-driven result on exactly-0/1 survival tables: the found inflow reproduces the prescribed stock when it
    drives an inflow-driven model, cohort tables included (stocks implying negative inflow included: all values free)"""
    import flodym.lifetime_models as lm

    a = dsm.build_stock("idsm", dims, lifetime=st.lifetime_model, inflow=st.inflow.values)
    a.compute()
    _cmp(w, "stock_reproduced", a.stock.values, st.stock.values, chain=False)
    _cmp(w, "same_outflow", a.outflow.values, st.outflow.values, chain=False)
    _cmp(w, "same_stock_by_cohort", a.get_stock_by_cohort(), st.get_stock_by_cohort(), chain=False)
    _cmp(w, "same_outflow_by_cohort", a.get_outflow_by_cohort(), st.get_outflow_by_cohort(), chain=False)


def run(cfg, w):
    if cfg["h"] == "fixed_concrete":
        from checks.c09 import _fixed_concrete

        return _fixed_concrete(cfg, w, check=_fixed_roundtrip)
    n, extra = cfg["n"], cfg["extra"]
    y, dt, b = dsm.make_grid(w, n, cfg["grid"])
    dims = dsm.make_dims(y, extra)
    shape = dims.shape
    if cfg["h"] == "converted_real":
        import flodym.lifetime_models as lm
        from flodym.stocks import StockDrivenDSM, InflowDrivenDSM

        prm = {}
        for name in cfg["prm"]:
            prm[name] = w.real("prm_" + name, default={"mean": 3.0, "std": 1.0}[name])
            w.assume(w.gt(prm[name], 0))
        lifetime = getattr(lm, cfg["lt"])(dims=dims, inflow_at=cfg["inflow_at"], n_pts_per_interval=cfg["npts"], **prm)
        I = w.arr("in", shape)
        w.set_scale(I)
        a = dsm.build_stock("idsm", dims, lifetime=lifetime, inflow=I)
        a.compute()
        want = {k: np.array(v, dtype=object if w.sym else float, copy=True) for k, v in dict(stock=a.stock.values, outflow=a.outflow.values, sbc=a.get_stock_by_cohort(), obc=a.get_outflow_by_cohort()).items()}
        s = a.to_stock_type(StockDrivenDSM, solver=cfg["solver"])
        w.ob("converted_model_is_stock_driven", type(s) is StockDrivenDSM)
        w.ob("converted_model_keeps_the_lifetime_settings", s.lifetime_model.inflow_at == cfg["inflow_at"] and s.lifetime_model.n_pts_per_interval == cfg["npts"])
        # the converted model starts from the computed arrays; its inflow is overwritten by what it finds
        s.inflow.set_values(_zeros(w, shape))
        s.compute()
        _cmp(w, "inflow_recovered", s.inflow.values, I)
        _cmp(w, "same_outflow", s.outflow.values, want["outflow"])
        _cmp(w, "same_stock_by_cohort", s.get_stock_by_cohort(), want["sbc"])
        _cmp(w, "same_outflow_by_cohort", s.get_outflow_by_cohort(), want["obc"])
        return
    tab = dsm.sf_table(w, n, shape[1:], constrain=("range",), diag_min=0.05)
    lt = lambda: dsm.AnyLifetime(dims=dims, table=tab)
    h = cfg["h"]
    if h == "in_to_stock_to_in":
        I = w.arr("in", shape)
        w.set_scale(I)
        a = dsm.build_stock("idsm", dims, lifetime=lt(), inflow=I)
        a.compute()
        if cfg.get("prealloc"):
            drv = dsm.prealloc(w, shape)
            drv[...] = a.stock.values
            s = dsm.build_stock("sdsm_" + cfg["solver"], dims, lifetime=lt(), stock=drv, inflow=dsm.prealloc(w, shape), outflow=dsm.prealloc(w, shape), keep_layout=True)
        elif cfg.get("again"):
            s = dsm.build_stock("sdsm_" + cfg["solver"], dims, lifetime=lt(), stock=w.arr("before", shape))
            s.compute()
            s.get_stock_by_cohort(), s.get_outflow_by_cohort()
            s.stock.set_values(a.stock.values.copy())
        else:
            s = dsm.build_stock("sdsm_" + cfg["solver"], dims, lifetime=lt(), stock=a.stock.values)
        s.compute()
        _cmp(w, "inflow_recovered", s.inflow.values, I)
        _cmp(w, "same_outflow", s.outflow.values, a.outflow.values)
        _cmp(w, "same_stock_by_cohort", s.get_stock_by_cohort(), a.get_stock_by_cohort())
        _cmp(w, "same_outflow_by_cohort", s.get_outflow_by_cohort(), a.get_outflow_by_cohort())
        _cmp(w, "inflow_input_untouched", a.inflow.values, I, chain=False)
        return
    if h == "shared_lifetime":
        tab1 = dsm.sf_table(w, n, shape[1:], name="sg", constrain=("range",), diag_min=0.05)
        L = lt()
        I = w.arr("in", shape)
        w.set_scale(I)
        if cfg["first"] == "idsm":
            a = dsm.build_stock("idsm", dims, lifetime=L, inflow=I)
            L.set_prms(table=tab1)
            s = dsm.build_stock("sdsm_" + cfg["solver"], dims, lifetime=L, stock=np.zeros(shape))
        else:
            s = dsm.build_stock("sdsm_" + cfg["solver"], dims, lifetime=L, stock=np.zeros(shape))
            L.set_prms(table=tab1)
            a = dsm.build_stock("idsm", dims, lifetime=L, inflow=I)
        a.compute()
        s.stock.set_values(a.stock.values.copy())
        s.compute()
        fresh = dsm.build_stock("idsm", dims, lifetime=dsm.AnyLifetime(dims=dims, table=tab1), inflow=I)
        fresh.compute()
        _cmp(w, "inflow_driven_model_uses_current_parameters", a.stock.values, fresh.stock.values, chain=False)
        _cmp(w, "inflow_recovered", s.inflow.values, I)
        _cmp(w, "same_outflow", s.outflow.values, a.outflow.values)
        _cmp(w, "same_stock_by_cohort", s.get_stock_by_cohort(), a.get_stock_by_cohort())
        return
    if h == "stock_to_in_to_stock":
        S = w.arr("st", shape)
        w.set_scale(S)
        s = dsm.build_stock("sdsm_" + cfg["solver"], dims, lifetime=lt(), stock=S)
        s.compute()
        if cfg.get("idsm") == "to_stock_type":
            # the computed stock-driven model converted in place of a fresh construction: the inflow-driven model starts
            # from arrays that are already filled
            from flodym.stocks import InflowDrivenDSM

            d = {k: v for k, v in s.__dict__.items() if k != "solver"}
            a = InflowDrivenDSM(**d)
            w.ob("converted_model_is_inflow_driven", type(a) is InflowDrivenDSM)
        elif cfg.get("idsm") == "computed_before":
            a = dsm.build_stock("idsm", dims, lifetime=lt(), inflow=w.arr("before", shape))
            a.compute()
            a.get_stock_by_cohort(), a.get_outflow_by_cohort()
            a.inflow.set_values(s.inflow.values.copy())
        elif cfg.get("idsm") == "filled_arrays":
            a = dsm.build_stock("idsm", dims, lifetime=lt(), inflow=s.inflow.values, stock=w.arr("oldst", shape), outflow=w.arr("oldout", shape))
        else:
            a = dsm.build_stock("idsm", dims, lifetime=lt(), inflow=s.inflow.values)
        a.compute()
        _cmp(w, "stock_reproduced", a.stock.values, S)
        _cmp(w, "same_outflow", a.outflow.values, s.outflow.values)
        _cmp(w, "same_stock_by_cohort", a.get_stock_by_cohort(), s.get_stock_by_cohort())
        return
    if h == "solvers_agree":
        S = w.arr("st", shape)
        w.set_scale(S)
        m = dsm.build_stock("sdsm_manual", dims, lifetime=lt(), stock=S)
        m.compute()
        l = dsm.build_stock("sdsm_lapack", dims, lifetime=lt(), stock=S)
        l.compute()
        _cmp(w, "inflow", l.inflow.values, m.inflow.values)
        _cmp(w, "outflow", l.outflow.values, m.outflow.values)
        _cmp(w, "stock_by_cohort", l.get_stock_by_cohort(), m.get_stock_by_cohort())
        _cmp(w, "outflow_by_cohort", l.get_outflow_by_cohort(), m.get_outflow_by_cohort())
        return
    raise RuntimeError(h)

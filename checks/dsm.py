"""Shared harness pieces for the stock properties (C03, C09, C10, C16, C17).

Symbolic: the time items themselves, all driver entries, the whole survival table
(``AnyLifetime``: one free symbol per (year, cohort, label) -- stands for *every* lifetime
model and parameter choice at once).
"""
from __future__ import annotations

import itertools

import numpy as np

from flodym import Dimension, DimensionSet, StockArray
from flodym.lifetime_models import LifetimeModel
from flodym.stocks import SimpleFlowDrivenStock, InflowDrivenDSM, StockDrivenDSM

GRIDS = ["unit", "const", "uneven"]
_UNEVEN = [0, 1, 3, 4, 8, 9, 15, 17, 26, 30, 31]


class AnyLifetime(LifetimeModel):
    """user-extensible point of flodym used as such: a lifetime model whose survival share for
    (year t, cohort m, label) is an arbitrary table entry supplied by the harness"""

    table: object = None

    @property
    def prms(self):
        return {}

    def set_prms(self, table=None):
        # like the shipped classes: new parameters replace the old ones and the cached tables are dropped
        if table is not None:
            self.table = table
            self._reset_tables()

    def _survival_by_year_id(self, t, m):
        if isinstance(m, slice):
            # (all cohorts at once, should a caller evaluate the table in one go: the table entry IS the share)
            return self.table[:, m, ...]
        return self.table[m:, m, ...]


class Env:
    pass


def make_grid(w, n, grid, prefix="y"):
    """symbolic time items with the grid family as an assumption; returns (items, dt oracle, bounds oracle)"""
    if grid == "unit":
        d0 = [2000 + i for i in range(n)]
    elif grid == "const":
        d0 = [2000 + 5 * i for i in range(n)]
    else:
        d0 = [2000 + _UNEVEN[i] for i in range(n)]
    y = [w.real(f"{prefix}{i}", default=d0[i]) for i in range(n)]
    if grid == "unit":
        for i in range(n - 1):
            w.assume(w.eq(y[i + 1] - y[i], 1))
    elif grid == "const":
        d = w.real(prefix + "_step", default=5)
        w.assume(w.gt(d, 0))
        for i in range(n - 1):
            w.assume(w.eq(y[i + 1] - y[i], d))
    else:
        for i in range(n - 1):
            w.assume(w.gt(y[i + 1] - y[i], 0))
    return y, *oracle_bounds(y)


def oracle_bounds(y):
    """documented interval bounds: midpoints between consecutive items; the first and last
    interval mirror their neighbour.  Written over the items only."""
    n = len(y)
    mid = [(y[i] + y[i + 1]) / 2 for i in range(n - 1)]
    b = [None] * (n + 1)
    for i in range(1, n):
        b[i] = mid[i - 1]
    b[0] = mid[0] - (mid[1] - mid[0])
    b[n] = mid[n - 2] + (mid[n - 2] - mid[n - 3])
    dt = [b[i + 1] - b[i] for i in range(n)]
    return dt, b


def make_dims(y, extra):
    tdim = Dimension(name="Time", letter="t", items=list(y))
    dl = [tdim]
    for l, k in extra.items():
        dl.append(Dimension(name={"r": "Region", "p": "Product", "q": "Quality", "c": "Commodity", "i": "Item"}[l], letter=l, items=[f"{l}{i + 1}" for i in range(k)]))
    return DimensionSet(dim_list=dl)


def sf_table(w, n, shape_no_t, name="sf", constrain=("range",), diag_min=None):
    """free survival table, lower triangular (entries above the diagonal are exact zeros)"""
    full = (n, n) + tuple(shape_no_t)
    tab = np.empty(full, dtype=object if w.sym else np.float64)
    labs = list(np.ndindex(*shape_no_t)) if shape_no_t else [()]
    for t in range(n):
        for c in range(n):
            for lab in labs:
                if t < c:
                    tab[(t, c) + lab] = 0
                else:
                    k = sum(lab)
                    tab[(t, c) + lab] = w.real(f"{name}_{t}_{c}" + "".join(f"_{i}" for i in lab),
                                               default=round(0.9 - 0.02 * k - 0.01 * c, 4) * round(0.75 + 0.03 * k, 4) ** (t - c))
    for c in range(n):
        for lab in labs:
            for t in range(c, n):
                v = tab[(t, c) + lab]
                if "range" in constrain:
                    w.assume(w.ge(v, 0))
                    w.assume(w.le(v, 1))
                if "mono" in constrain and t > c:
                    w.assume(w.le(v, tab[(t - 1, c) + lab]))
            if diag_min is not None:
                w.assume(w.ge(tab[(c, c) + lab], diag_min))
    if w.sym:
        from svx.sym import symarr

        tab = symarr(tab)
    return tab


def pdf_oracle(sf, n, shape_no_t):
    """outflow probabilities as the documented negative differences of the survival table"""
    pdf = np.zeros_like(sf)
    labs = list(np.ndindex(*shape_no_t)) if shape_no_t else [()]
    for c in range(n):
        for lab in labs:
            pdf[(c, c) + lab] = 1 - sf[(c, c) + lab]
            for t in range(c + 1, n):
                pdf[(t, c) + lab] = sf[(t - 1, c) + lab] - sf[(t, c) + lab]
    return pdf


def prealloc(w, shape):
    """a zero-filled result buffer as a user would hand it over after transposing a label x year table: a transposed view,
    neither C-contiguous nor the owner of its memory"""
    a = np.zeros(tuple(shape)[::-1], dtype=object if w.sym else np.float64).T
    if w.sym:
        from svx.sym import SymArr

        a = a.view(SymArr)
    return a


def build_stock(kind, dims, lifetime=None, inflow=None, outflow=None, stock=None, name="st", keep_layout=False):
    def sa(v, nm):
        # keep_layout: the array object is handed over as it is (its memory layout included) instead of as a fresh copy
        return None if v is None else StockArray(dims=dims, values=v if keep_layout else v.copy(), name=nm)

    if kind == "flow":
        return SimpleFlowDrivenStock(dims=dims, inflow=sa(inflow, "in"), outflow=sa(outflow, "out"), **({"stock": sa(stock, "st")} if stock is not None else {}), name=name)
    if kind == "idsm":
        return InflowDrivenDSM(dims=dims, inflow=sa(inflow, "in"), **({"stock": sa(stock, "st")} if stock is not None else {}),
                               **({"outflow": sa(outflow, "out")} if outflow is not None else {}), lifetime_model=lifetime, name=name)
    if kind in ("sdsm_manual", "sdsm_lapack"):
        return StockDrivenDSM(dims=dims, stock=sa(stock, "st"), **({"inflow": sa(inflow, "in")} if inflow is not None else {}),
                              **({"outflow": sa(outflow, "out")} if outflow is not None else {}), lifetime_model=lifetime, solver=kind.split("_")[1], name=name)
    raise ValueError(kind)


def labels(shape_no_t):
    return list(np.ndindex(*shape_no_t)) if shape_no_t else [()]

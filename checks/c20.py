"""C20 -- Sankey and line plots show the system's numbers under the right labels."""
from __future__ import annotations

import itertools

import numpy as np

from checks import c02

PROPERTY = "C20"
FUNCTIONS = ["PlotlySankeyPlotter._get_links_dict", "PlotlySankeyPlotter._append_flow", "PlotlySankeyPlotter._flow_is_shown", "PlotlySankeyPlotter.plot",
             "ArrayPlotter._prepare_arrays", "ArrayPlotter._plot_subplot", "ArrayPlotter._get_x_array_like_value_array", "ArrayPlotter._dict_of_slices",
             "PlotlyArrayPlotter.add_line", "PyplotArrayPlotter.add_line"]
ASSUMPTIONS = ["plotly stores the sequences it is given (observed at figure.data)", "matplotlib Axes.plot / scatter / fill_between are replaced by a recorder of their arguments (pyplot converts to float)"]
OUTSIDE = ["rendering, colours, layout, legends", "arrays with more than 3 dimensions"]
VARIANTS = 'falsy items selected by slices; plotter settings assigned after construction; colliding display names'
BOUNDS = {"quick": dict(sankey="sysenv + 2 processes, 1..3 flows, slice per dimension absent / one item, exclusions, colour split by each dimension", arrays="1-3 dims, every assignment of dimensions to subplot / line / x roles, by name and by letter, x_array none / same dims / subset in other order, 3 chart types, plotly and pyplot"),
          "thorough": dict(sankey="sysenv + 3 processes, up to 4 flows", arrays="as quick, lengths (2,3,2) and (3,2,2)")}
for _t in BOUNDS.values():
    _t["variants_beyond_the_base_enumeration"] = VARIANTS
OPTS = {"quick": dict(shadow_every=10, max_paths=50), "thorough": dict(shadow_every=40, max_paths=50)}
NAMES = {"t": "Time", "a": "Alpha", "b": "Beta"}


def configs(tier, seed):
    out = []
    procs = ["sysenv", "p1", "p2"] if tier == "quick" else ["sysenv", "p1", "p2", "p3"]
    fsets = c02._flowsets(procs, 3 if tier == "quick" else 4)[:: (4 if tier == "quick" else 9)]
    slices = [{}, {"a": "a2"}, {"t": "t1", "b": "b2"}, {"b": "b1"}]
    for i, fs in enumerate(fsets):
        fdims = [["ta", "tab", "b", "at", "t"][(i + 2 * j) % 5] for j in range(len(fs))]
        for si, sl in enumerate(slices):
            for excl in (["sysenv"], [], ["p1"]):
                for exf in (False, True):
                    for split in (None, 0):
                        if split is not None and (si + i) % 2:
                            continue
                        if split is not None and fdims[0] and fdims[0][-1] in sl:
                            continue  # slicing away the dimension a flow is split by is a contradictory setting (flodym raises)
                        key = f"sankey/" + "+".join(f"{a}>{b}:{d}" for (a, b), d in zip(fs, fdims)) + f"/slice={''.join(f'{k}{v}' for k, v in sl.items()) or '-'}/excl={','.join(excl) or '-'}/exf={int(exf)}/split={split}"
                        out.append(dict(h="sankey", op="sankey", key=key, procs=procs, flows=[list(p) for p in fs], fdims=fdims, stocks=[], slice=sl, excl=excl, exf=exf, split=split))
                        if (i + si) % 3 == 1:
                            # node colours given per process, in another order than the system lists its processes
                            out.append(dict(h="sankey", op="sankey_nodecol", key=key + "/node_colors=reversed_order", procs=procs, flows=[list(p) for p in fs], fdims=fdims, stocks=[], slice=sl, excl=excl, exf=exf, split=split, node_colors="reversed"))
                        if (excl or exf) and (i + si) % 3 == 0:
                            for how in ("before_plot", "after_plot"):
                                out.append(dict(h="sankey", op="sankey_reconf", key=key + f"/settings_assigned={how}", procs=procs, flows=[list(p) for p in fs], fdims=fdims, stocks=[], slice=sl, excl=excl, exf=exf, split=split, reconfigured=how))
    # slices that select an item which is falsy in Python (period 0, an empty label)
    for i, fs in enumerate(fsets[::3]):
        fdims = [["ta", "tab", "b", "at", "t"][(i + 2 * j) % 5] for j in range(len(fs))]
        for sl in ({"t": 0}, {"b": ""}, {"t": 0, "b": ""}, {"t": 1}):
            for split in (None, 0):
                if split is not None and fdims[0] and fdims[0][-1] in sl:
                    continue
                key = "sankey/" + "+".join(f"{a}>{b}:{d}" for (a, b), d in zip(fs, fdims)) + f"/falsy_items/slice={''.join(f'{k}={v!r}' for k, v in sl.items())}/split={split}"
                out.append(dict(h="sankey", op="sankey_falsy", key=key, procs=procs, flows=[list(p) for p in fs], fdims=fdims, stocks=[], slice=sl, excl=["sysenv"] if i % 2 else [], exf=False, split=split, falsy_items=True))
    # several excluded processes, written in and out of definition order
    procs4 = ["sysenv", "p1", "p2", "p3"]
    for fs in ([("p2", "p3")], [("p3", "p2"), ("p2", "p3")], [("sysenv", "p2"), ("p2", "p3"), ("p3", "p1")], [("p1", "p3"), ("p3", "p2")]):
        fdims = ["ta", "b", "tab"][: len(fs)]
        for excl in (["sysenv", "p1"], ["p1", "sysenv"], ["p3", "sysenv"], ["p2", "p1"], ["p1", "p1"], ["p3", "p1", "sysenv"]):
            for sl in ({}, {"a": "a2"}):
                key = "sankey/" + "+".join(f"{a}>{b}:{d}" for (a, b), d in zip(fs, fdims)) + f"/slice={''.join(f'{k}{v}' for k, v in sl.items()) or '-'}/excl={','.join(excl)}/exf=0/split=None"
                out.append(dict(h="sankey", op="sankey", key=key, procs=procs4, flows=[list(p) for p in fs], fdims=fdims, stocks=[], slice=sl, excl=excl, exf=False, split=None))
    shapes = ["t2", "t3a2", "a2t3", "t2a2b2", "b2t3a2", "a3t3"] + (["a3t2b2"] if tier == "thorough" else [])
    for shape in shapes:
        letters = shape[0::2]
        for roles in itertools.permutations(letters):
            # roles: (x dim, line dim, subplot dim) for as many dims as the array has
            for style in ("names", "letters"):
                for xa in ("none", "same", "subset"):
                    for backend in ("plotly", "pyplot"):
                        for chart in ("line", "scatter", "area"):
                            if chart != "line" and (xa != "none" or style != "names"):
                                continue
                            out.append(dict(h="array", op=backend, key=f"array/{backend}/{shape}/roles={''.join(roles)}/{style}/x={xa}/{chart}", shape=shape, roles=list(roles), style=style, xa=xa, backend=backend, chart=chart))
                            if chart == "line" and style == "names" and len(letters) >= 2 and xa in ("none", "same"):
                                # display names that show two items of the line dimension (and two subplot items) under one text
                                out.append(dict(h="array", op=backend + "dn", key=f"array/{backend}/{shape}/roles={''.join(roles)}/{style}/x={xa}/{chart}/same_display_names", shape=shape, roles=list(roles), style=style, xa=xa, backend=backend, chart=chart, display="collide"))
    return out


def run(cfg, w):
    if cfg["h"] == "sankey":
        return _sankey(cfg, w)
    return _array(cfg, w)


def _sankey(cfg, w):
    from flodym.export.sankey import PlotlySankeyPlotter

    mfa, F, S = c02._build(cfg, w)
    names = list(F)
    exflows = [names[-1]] if cfg["exf"] else []
    colors = {"default": "gray"}
    split_dim = None
    if cfg["split"] is not None:
        n0 = names[cfg["split"]]
        d0 = F[n0][2]
        if d0:
            split_dim = (n0, d0[-1])
            colors[n0] = (NAMES[d0[-1]] if len(d0) % 2 else d0[-1], ["red", "green", "blue"])
    sl = cfg["slice"]
    extra_kw = {}
    if cfg.get("node_colors") == "reversed":
        extra_kw["node_color_dict"] = {"default": "gray", **{p_: c_ for p_, c_ in zip(reversed(cfg["procs"]), ["red", "green", "blue", "orange"])}}
    try:
        if cfg.get("reconfigured"):
            # one plotter object used for a second view of the system: built (and plotted) with other settings first
            pl = PlotlySankeyPlotter(mfa=mfa, slice_dict={}, exclude_processes=[], exclude_flows=[], flow_color_dict=colors)
            if cfg["reconfigured"] == "after_plot":
                pl.plot()
            pl.exclude_processes = list(cfg["excl"])
            pl.exclude_flows = exflows
            pl.slice_dict = dict(sl)
            fig = pl.plot()
        else:
            fig = PlotlySankeyPlotter(mfa=mfa, slice_dict=dict(sl), exclude_processes=list(cfg["excl"]), exclude_flows=exflows, flow_color_dict=colors, **extra_kw).plot()
    except Exception as e:
        w.ob("plot_does_not_raise", False, info=f"{type(e).__name__}: {str(e)[:200]}")
        return
    link = fig.data[0].link
    src, tgt, val, lab = list(link.source or []), list(link.target or []), list(link.value or []), list(link.label or [])
    shown_procs = [p for p in cfg["procs"] if p not in cfg["excl"]]  # definition order, whatever order the exclusions were written in
    node = {p: i for i, p in enumerate(shown_procs)}
    w.ob("node_labels", list(fig.data[0].node.label) == shown_procs)
    expected = []
    for n, (a, b, d, V) in F.items():
        if n in exflows or a in cfg["excl"] or b in cfg["excl"]:
            continue
        fixed = {l: mfa.dims[l].items.index(v) for l, v in sl.items() if l in d}

        def total(extra=None):
            t = 0
            for idx in np.ndindex(*np.shape(V)):
                lab_ = dict(zip(d, idx))
                if all(lab_[l] == k for l, k in fixed.items()) and (extra is None or lab_[extra[0]] == extra[1]):
                    t = t + V[idx]
            return t

        if split_dim and split_dim[0] == n:
            sd = split_dim[1]
            if sd in fixed:
                expected.append((node[a], node[b], total(), str(mfa.dims[sd].items[fixed[sd]])))  # slicing away the split dim: sum_values_to raises -> see below
            else:
                for k in range(c02.LENS[sd]):
                    expected.append((node[a], node[b], total((sd, k)), str(mfa.dims[sd].items[k])))
        else:
            expected.append((node[a], node[b], total(), n))
    w.ob("number_of_links", len(val) == len(expected), info=f"{len(val)} links, expected {len(expected)}")
    if len(val) != len(expected):
        return
    for i, (es, et, ev, el) in enumerate(expected):
        w.ob(f"link{i}:source_target", src[i] == es and tgt[i] == et, info=f"{src[i]}->{tgt[i]} want {es}->{et}")
        w.ob_eq(f"link{i}:value", val[i], ev)
        w.ob(f"link{i}:label", str(lab[i]) == str(el), info=f"{lab[i]!r} want {el!r}")
    for n, (a, b, d, V) in F.items():
        w.ob_arr_eq(f"flow_unchanged[{n}]", mfa.flows[n].values, V)


class _Rec:
    def __init__(self):
        self.calls = []


def _array(cfg, w):
    from flodym import FlodymArray, Dimension, DimensionSet

    shape = cfg["shape"]
    letters = shape[0::2]
    lens = {shape[i]: int(shape[i + 1]) for i in range(0, len(shape), 2)}
    D = {"t": Dimension(name="Time", letter="t", items=[2000 + 5 * i for i in range(lens.get("t", 1))], dtype=int),
         "a": Dimension(name="Alpha", letter="a", items=[f"a{i + 1}" for i in range(lens.get("a", 1))]),
         "b": Dimension(name="Beta", letter="b", items=[f"b{i + 1}" for i in range(lens.get("b", 1))])}
    dims = DimensionSet(dim_list=[D[l] for l in letters])
    Y = w.arr("y", dims.shape)
    arr = FlodymArray(dims=dims, values=Y.copy(), name="quantity")
    roles = cfg["roles"]
    xdim = roles[0]
    ldim = roles[1] if len(roles) > 1 else None
    sdim = roles[2] if len(roles) > 2 else None
    nm = (lambda l: None if l is None else (NAMES[l] if cfg["style"] == "names" else l))
    xa = None
    Xv = None
    if cfg["xa"] == "same":
        Xv = w.arr("x", dims.shape)
        xa = FlodymArray(dims=dims, values=Xv.copy(), name="xq")
        xl = list(letters)
    elif cfg["xa"] == "subset":
        xl = [l for l in reversed(letters) if l in (xdim, ldim)]
        xds = DimensionSet(dim_list=[D[l] for l in xl])
        Xv = w.arr("x", xds.shape)
        xa = FlodymArray(dims=xds, values=Xv.copy(), name="xq")
    kw = dict(array=arr, intra_line_dim=nm(xdim), linecolor_dim=nm(ldim), subplot_dim=nm(sdim), x_array=xa, chart_type=cfg["chart"])
    shown = lambda item: item
    if cfg.get("display") == "collide":
        dn = {}
        for d_ in (ldim, sdim):
            if d_:
                for it in D[d_].items[:2]:
                    dn[it] = f"group of {d_}"
        kw["display_names"] = dn
        shown = lambda item: dn.get(item, item)
    traces = []
    if cfg["backend"] == "plotly":
        from flodym.export.array_plotter import PlotlyArrayPlotter

        fig = PlotlyArrayPlotter(**kw).plot()
        for tr in fig.data:
            traces.append((list(tr.x), list(tr.y), tr.name, tr.xaxis))
    else:
        import matplotlib
        from matplotlib import axes as maxes, pyplot as plt
        from flodym.export.array_plotter import PyplotArrayPlotter

        rec = []
        saved = {n: getattr(maxes.Axes, n) for n in ("plot", "scatter", "fill_between")}

        def mk(n):
            def f(self, x, y, *a, **k):
                rec.append((self, list(np.asarray(x, dtype=object)), list(np.asarray(y, dtype=object)), k.get("label")))
                return []
            return f

        for n in saved:
            setattr(maxes.Axes, n, mk(n))
        try:
            fig = PyplotArrayPlotter(**kw).plot()
            axl = list(fig.axes)
            for (ax, x, y, label) in rec:
                traces.append((x, y, label, axl.index(ax)))
        finally:
            for n, f in saved.items():
                setattr(maxes.Axes, n, f)
            plt.close("all")
    n_sub = lens[sdim] if sdim else 1
    n_line = lens[ldim] if ldim else 1
    w.ob("number_of_lines", len(traces) == n_sub * n_line, info=f"{len(traces)} traces, expected {n_sub * n_line}")
    if len(traces) != n_sub * n_line:
        return
    k = 0
    axes_seen = []
    for si in range(n_sub):
        for li in range(n_line):
            x, y, label, axis = traces[k]
            k += 1
            if li == 0:
                axes_seen.append(axis)
            w.ob(f"subplot{si}_line{li}:same_axes_within_subplot", axis == axes_seen[si])
            if ldim:
                w.ob(f"subplot{si}_line{li}:label", str(label) == str(shown(D[ldim].items[li])), info=f"{label}")
            w.ob(f"subplot{si}_line{li}:length", len(x) == lens[xdim] and len(y) == lens[xdim])
            if len(y) != lens[xdim] or len(x) != lens[xdim]:
                continue
            for xi in range(lens[xdim]):
                lab = {xdim: xi}
                if ldim:
                    lab[ldim] = li
                if sdim:
                    lab[sdim] = si
                w.ob(f"subplot{si}_line{li}:y[{xi}]", w.same(y[xi], Y[tuple(lab[l] for l in letters)]))
                if Xv is None:
                    w.ob(f"subplot{si}_line{li}:x[{xi}]", x[xi] == D[xdim].items[xi], info=f"{x[xi]}")
                else:
                    w.ob(f"subplot{si}_line{li}:x[{xi}]", w.same(x[xi], Xv[tuple(lab[l] for l in xl)]))
    w.ob("distinct_axes_per_subplot", len(set(map(str, axes_seen))) == n_sub)
    w.ob_arr_eq("array_unchanged", arr.values, Y)

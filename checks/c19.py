"""C19 -- exports reproduce every flow and stock under its labels."""
from __future__ import annotations

import itertools
import os
import shutil
import tempfile

import numpy as np

from checks import c02

PROPERTY = "C19"
FUNCTIONS = ["convert_to_dict", "_convert_to_dict_by_func", "_get_convert_func", "export_mfa_flows_to_csv", "export_mfa_stocks_to_csv", "to_valid_file_name",
             "FlodymArray.to_df", "FlodymArray.from_df"]
ASSUMPTIONS = ["MFADefinition.to_dfs has no numeric content: its harness is an exhaustive structural enumeration (32 subsets of empty kinds) with Python-level obligations, no solver query is involved there", "DataFrame.to_csv is replaced by a recorder (the CSV text itself is outside: compiled formatting concretises)", "cell values pairwise different for frames with more than 4 cells"]
OUTSIDE = ["CSV text and pickle byte round trips", "systems beyond the bound"]
VARIANTS = 'dimensions with items of more than one type (mixed_type_items); permuted process ids; names with a 90-character common prefix; pickle export through open / pickle recorders (two exports to one path); to_csv recorder requires default formatting; a stock named like a flow'
BOUNDS = {"quick": dict(processes="sysenv + 2", flows="1..3 flows of differing dimensionality (structured third of the multisets)", stocks="none / at p1 / without process / two", forms="numpy, pandas, csv flows, csv stocks with and without inflow/outflow"),
          "thorough": dict(processes="sysenv + 3", flows="1..4", stocks="as quick", forms="as quick")}
for _t in BOUNDS.values():
    _t["variants_beyond_the_base_enumeration"] = VARIANTS
OPTS = {"quick": dict(shadow_every=10, max_paths=100, max_depth=800), "thorough": dict(shadow_every=40, max_paths=100, max_depth=800)}


def configs(tier, seed):
    out = []
    procs = ["sysenv", "p1", "p2"] if tier == "quick" else ["sysenv", "p1", "p2", "p3"]
    fsets = c02._flowsets(procs, 3 if tier == "quick" else 4)
    fsets = fsets[:: (5 if tier == "quick" else 11)]
    for i, fs in enumerate(fsets):
        for rot in range(2):
            fdims = [c02.DIMSETS[(rot * 4 + 2 * j + len(fs)) % len(c02.DIMSETS)] for j in range(len(fs))]
            for sc in ([], ["p1"], [None], ["p1", None]):
                for form in ("numpy", "pandas", "csv") + (("pickle",) if rot == 0 else ()):
                    key = f"export/{form}/" + "+".join(f"{a}>{b}:{d or '-'}" for (a, b), d in zip(fs, fdims)) + "/stocks=" + ",".join(str(s) for s in sc)
                    out.append(dict(h="export", op=form, key=key, procs=procs, flows=[list(p) for p in fs], fdims=fdims, stocks=sc, form=form))
                    if form == "csv" and rot == 0 and i % 3 == 0:
                        # names longer than any file-name limit one might think of: one file per array all the same
                        out.append(dict(h="export", op=form + "long", key=key + "/long_names", procs=procs, flows=[list(p) for p in fs], fdims=fdims, stocks=sc, form=form,
                                        name_prefix="material flows of the regional building stock model, scenario with extended lifetimes: "))
                    if form == "csv" and rot == 0 and i % 3 == 1:
                        # names with dots in them ("PM2.5", "v1.2"): still one file per array
                        out.append(dict(h="export", op=form + "dots", key=key + "/dotted_names", procs=procs, flows=[list(p) for p in fs], fdims=fdims, stocks=sc, form=form,
                                        name_prefix="PM2.5 plant v1.2 "))
                    if form == "csv" and rot == 1 and len(fs) >= 2 and i % 2 == 0:
                        out.append(dict(h="export", op=form + "runs", key=key + "/names_differing_in_separator_runs", procs=procs, flows=[list(p) for p in fs], fdims=fdims, stocks=sc, form=form, name_style="runs"))
                    if form == "csv" and rot == 0 and i % 3 == 2:
                        # flows first, then stocks, into ONE directory, with real files; flow names that end like a stock file
                        out.append(dict(h="export", op=form + "dir", key=key + "/same_directory", procs=procs, flows=[list(p) for p in fs], fdims=fdims, stocks=sc, form=form,
                                        same_directory=True, name_suffix=" in-use stock"))
                    if sc and i % 2 == 0 and form != "csv":
                        # a stock carrying the name of a flow (separate name spaces): both are exported, each under its kind
                        out.append(dict(h="export", op=form + "same", key=key + "/stock_named_like_flow", procs=procs, flows=[list(p) for p in fs], fdims=fdims, stocks=sc, form=form, stock_named_like_flow=True))
                    if form != "csv" and i % 2 == 1:
                        # dimensions whose items are of more than one type
                        out.append(dict(h="export", op=form + "mixed", key=key + "/mixed_type_items", procs=procs, flows=[list(p) for p in fs], fdims=fdims, stocks=sc, form=form, mixed_items=True))
                    if form == "numpy" and rot == 0:
                        out.append(dict(h="export", op=form + "ids", key=key + "/permuted_ids", procs=procs, flows=[list(p) for p in fs], fdims=fdims, stocks=sc, form=form, permuted_ids=True))
    # MFADefinition.to_dfs: purely structural (no numeric content exists): every subset of non-empty kinds of definition
    for mask in range(32):
        out.append(dict(h="definition_tables", op="to_dfs", key=f"definition_tables/kinds={mask:05b}", mask=mask, procs=[], flows=[], fdims=[], stocks=[], form="to_dfs"))
    return out


_ITEMS = {l: [f"{l}{i + 1}" for i in range(c02.LENS[l])] for l in "tab"}


def _labels(d):
    return list(itertools.product(*[_ITEMS[l] for l in d]))


def _check_df(w, tag, df, d, V):
    """a long-format to_df frame must list each entry once under its labels"""
    names = [{"t": "Time", "a": "Alpha", "b": "Beta"}[l] for l in d]
    long = df.reset_index()
    w.ob(f"{tag}:columns", [c for c in long.columns if c != "index"] == names + ["value"], info=str(list(long.columns)))
    rows = {}
    for _i, row in long.iterrows():
        lab = tuple(row[n] for n in names)
        w.ob(f"{tag}:row_once{list(lab)}", lab not in rows)
        rows[lab] = row["value"]
    for idx in np.ndindex(*np.shape(V)):
        lab = tuple(_ITEMS[l][k] for l, k in zip(d, idx))
        w.ob(f"{tag}:listed{list(idx)}", lab in rows)
        if lab in rows:
            w.ob(f"{tag}:value{list(idx)}", w.same(rows[lab], V[idx]))
    w.ob(f"{tag}:row_count", len(rows) == int(np.prod(np.shape(V) or (1,))))


def _definition_tables(cfg, w):
    """one table per non-empty kind of definition, one row per definition, holding its field values.
    No symbolic values exist here: the obligations are Python-level structural checks, enumerated over all 32
    subsets of {dimensions, processes, flows, stocks, parameters} being empty or not."""
    from flodym import MFADefinition, DimensionDefinition, FlowDefinition, StockDefinition, ParameterDefinition
    from flodym.stocks import SimpleFlowDrivenStock, InflowDrivenDSM
    from flodym.lifetime_models import NormalLifetime

    m = cfg["mask"]
    kinds = dict(
        dimensions=[DimensionDefinition(name="Time", letter="t", dtype=int), DimensionDefinition(name="Region", letter="r", dtype=str)] if m & 1 else [],
        processes=["sysenv", "use phase", "waste mgmt."] if m & 2 else [],
        flows=[FlowDefinition(from_process="sysenv", to_process="use phase", dim_letters=("t", "r")),
               FlowDefinition(from_process="use phase", to_process="waste mgmt.", dim_letters=("r", "t"), name_override="eol flow")] if (m & 4 and m & 2 and m & 1) else [],
        stocks=[StockDefinition(name="in use", process="use phase", dim_letters=("t", "r"), subclass=InflowDrivenDSM, lifetime_model_class=NormalLifetime),
                StockDefinition(name="landfill", dim_letters=("t",), subclass=SimpleFlowDrivenStock, process="waste mgmt.")] if (m & 8 and m & 2 and m & 1) else [],
        parameters=[ParameterDefinition(name="share", dim_letters=("r",)), ParameterDefinition(name="lifetime mean", dim_letters=("t", "r")), ParameterDefinition(name="k", dim_letters=())] if (m & 16 and m & 1) else [],
    )
    try:
        d = MFADefinition(**kinds)
    except Exception as e:
        w.ob("definition_accepted", False, info=repr(e)[:200])
        return
    dfs = d.to_dfs()
    nonempty = [k for k in ("dimensions", "processes", "flows", "stocks", "parameters") if kinds[k]]
    w.ob("one_table_per_non_empty_kind", list(dfs) == nonempty, info=f"{list(dfs)} want {nonempty}")
    for k in nonempty:
        if k not in dfs:
            continue
        df = dfs[k]
        w.ob(f"{k}:one_row_per_definition", len(df) == len(kinds[k]))
        for i, item in enumerate(kinds[k]):
            if i >= len(df):
                break
            row = df.iloc[i]
            if isinstance(item, str):
                w.ob(f"{k}[{i}]:name", list(df.columns) == ["name"] and row["name"] == item)
            else:
                dump = item.model_dump()
                w.ob(f"{k}[{i}]:columns_are_fields", set(df.columns) == set(dump))
                for f_, v in dump.items():
                    if f_ in df.columns:
                        got = row[f_]
                        same = (got == v) if not isinstance(v, tuple) else (tuple(got) == v if not isinstance(got, float) else len(v) == 0)
                        w.ob(f"{k}[{i}].{f_}", bool(same) or (v is None and got is None) or (v == () and (got == () or got != got)), info=f"{got!r} want {v!r}")
    w.ob_eq("anchor", w.real("one", default=1) * 0 + 1, 1)


def run(cfg, w):
    import pandas as pd
    from flodym import FlodymArray, DimensionSet

    if cfg["h"] == "definition_tables":
        return _definition_tables(cfg, w)
    from flodym.export.data_writer import convert_to_dict, export_mfa_flows_to_csv, export_mfa_stocks_to_csv
    from flodym.export.helper import to_valid_file_name

    global _ITEMS
    _ITEMS = c02.dim_items(cfg)

    mfa, F, S = c02._build(cfg, w, fortran=True)
    for name, (a, b, d, V) in F.items():
        if V.size > 4:
            w.assume_distinct(V)
    form = cfg["form"]
    if form == "pickle":
        # the pickle bytes are outside the claim; what is handed to pickle.dump, and how the file is opened, is inside:
        # `pickle` and `open` as seen by flodym.export.data_writer are recorders
        import flodym.export.data_writer as dwm

        opened, dumped = [], []

        class _File:
            def __init__(self, path, mode):
                self.path, self.mode, self.closed = path, mode, False

            def __enter__(self):
                return self

            def __exit__(self, *a):
                self.closed = True
                return False

            def close(self):
                self.closed = True

            def write(self, b):
                return len(b)

        class _Pickle:
            HIGHEST_PROTOCOL = 5

            @staticmethod
            def dump(obj, f, *a, **k):
                dumped.append((obj, f))

        def _open(path, mode="r", *a, **k):
            f = _File(path, mode)
            opened.append(f)
            return f

        old_pickle, had_open = dwm.pickle, dwm.__dict__.get("open", None)
        dwm.pickle, dwm.open = _Pickle, _open
        try:
            dwm.export_mfa_to_pickle(mfa, "/nonexistent/results/mfa.pickle")
            dwm.export_mfa_to_pickle(mfa, "/nonexistent/results/mfa.pickle")  # a second export to the same path replaces the first
        finally:
            dwm.pickle = old_pickle
            if had_open is None:
                del dwm.open
            else:
                dwm.open = had_open
        w.ob("one_file_per_export_at_the_given_path", len(opened) == 2 and all(f.path == "/nonexistent/results/mfa.pickle" for f in opened), info=str([(f.path, f.mode) for f in opened]))
        w.ob("file_is_written_from_scratch_in_binary_mode", all(f.mode in ("wb", "bw", "xb", "bx", "w+b", "wb+") for f in opened), info=str([f.mode for f in opened]))
        w.ob("one_dump_per_export_into_that_file", len(dumped) == 2 and all(any(df is f for f in opened) for _o, df in dumped))
        out = dumped[-1][0] if dumped else {}
        form = "numpy"  # the dumped object must be the numpy-form dictionary: checked below like convert_to_dict's result
        w.ob("dumped_object_is_a_dict", isinstance(out, dict))
        if not isinstance(out, dict):
            return
    if form in ("numpy", "pandas"):
        out = convert_to_dict(mfa, form) if cfg["form"] != "pickle" else out
        w.ob("keys", set(out) == {"dimension_names", "dimension_items", "processes", "flows", "flow_dimensions", "flow_processes", "stocks", "stock_dimensions", "stock_processes"})
        w.ob("dimension_names", out["dimension_names"] == {"t": "Time", "a": "Alpha", "b": "Beta"})
        want_items = {n: list(_ITEMS[l]) for l, n in zip("tab", ["Time", "Alpha", "Beta"])}
        w.ob("dimension_items", out["dimension_items"] == want_items and all([type(x_) for x_ in out["dimension_items"][n]] == [type(x_) for x_ in want_items[n]] for n in want_items),
             info=str(out["dimension_items"]))
        w.ob("processes", out["processes"] == cfg["procs"])
        w.ob("flow_names", list(out["flows"]) == list(F) and list(out["flow_dimensions"]) == list(F) and list(out["flow_processes"]) == list(F))
        for name, (a, b, d, V) in F.items():
            w.ob(f"flow_dimensions[{name}]", tuple(out["flow_dimensions"].get(name, ())) == tuple(d))
            w.ob(f"flow_processes[{name}]", tuple(out["flow_processes"].get(name, ())) == (a, b))
            got = out["flows"].get(name)
            if form == "numpy":
                w.ob_arr_eq(f"flow_values[{name}]", got, V)
            else:
                if d:
                    _check_df(w, f"flow_df[{name}]", got, d, V)
                    back = FlodymArray.from_df(dims=DimensionSet(dim_list=[mfa.dims[l] for l in d]), df=got)
                    w.ob_arr_eq(f"flow_reimport[{name}]", back.values, V)
        w.ob("stock_names", list(out["stocks"]) == list(S) and list(out["stock_dimensions"]) == list(S))
        w.ob("stock_processes", out["stock_processes"] == {n: sp for n, (sp, d, I, O, ST) in S.items() if sp is not None})
        for name, (sp, d, I, O, ST) in S.items():
            w.ob(f"stock_dimensions[{name}]", tuple(out["stock_dimensions"].get(name, ())) == tuple(d))
            got = out["stocks"].get(name)
            if form == "numpy":
                w.ob_arr_eq(f"stock_values[{name}]", got, ST)
            else:
                _check_df(w, f"stock_df[{name}]", got, d, ST)
    elif cfg.get("same_directory"):
        # real files (their text is outside the claim, their existence is not): after both exports the directory holds one
        # file per flow and one per exported stock quantity
        tmp = tempfile.mkdtemp(prefix="flodym_c19_dir_")
        try:
            export_mfa_flows_to_csv(mfa, tmp)
            after_flows = sorted(os.listdir(tmp))
            export_mfa_stocks_to_csv(mfa, tmp, with_in_and_out=True)
            after_both = sorted(os.listdir(tmp))
        finally:
            shutil.rmtree(tmp, ignore_errors=True)
        want_flows = sorted(to_valid_file_name(n) + ".csv" for n in F)
        want_stock = sorted(f"{to_valid_file_name(n)}_{q}.csv" for n in S for q in ("stock", "inflow", "outflow"))
        w.ob("flow_files_written", after_flows == want_flows, info=f"{after_flows} want {want_flows}")
        w.ob("flow_files_survive_the_stock_export", all(f_ in after_both for f_ in want_flows), info=f"missing {[f_ for f_ in want_flows if f_ not in after_both]}")
        w.ob("directory_holds_exactly_the_exported_arrays", after_both == sorted(set(want_flows + want_stock)), info=str(after_both))
    else:
        calls, lossy = [], []
        orig = pd.DataFrame.to_csv

        def rec(self, path=None, *a, **k):
            calls.append((path, self.copy()))
            # the recorder stands for to_csv with pandas' default number formatting (shortest round-trip repr): any
            # formatting option that changes how values are written voids that
            fmt = {n: v for n, v in k.items() if n in ("float_format", "decimal", "na_rep", "columns", "header", "index", "quoting") and v not in (None, ".", "", True)}
            lossy.extend(sorted(fmt.items()) + list(a))

        tmp = tempfile.mkdtemp(prefix="flodym_c19_")
        pd.DataFrame.to_csv = rec
        try:
            export_mfa_flows_to_csv(mfa, os.path.join(tmp, "flows"))
            flow_calls, calls = calls, []
            export_mfa_stocks_to_csv(mfa, os.path.join(tmp, "stocks"))
            stock_calls, calls = calls, []
            export_mfa_stocks_to_csv(mfa, os.path.join(tmp, "stocks_io"), with_in_and_out=True)
            stock_io_calls = calls
        finally:
            pd.DataFrame.to_csv = orig
            shutil.rmtree(tmp, ignore_errors=True)
        w.ob("csv_written_with_default_formatting", not lossy, info=str(lossy[:3]))
        w.ob("one_file_per_flow", len(flow_calls) == len(F) and len({p for p, _ in flow_calls}) == len(F))
        for (path, df), (name, (a, b, d, V)) in zip(flow_calls, F.items()):
            w.ob(f"flow_file_name[{name}]", os.path.basename(path) == to_valid_file_name(name) + ".csv")
            if d:
                _check_df(w, f"flow_csv[{name}]", df, d, V)
            else:
                w.ob(f"flow_csv_scalar[{name}]", w.same(df["value"].iloc[0], V[()]))
        w.ob("one_file_per_stock", len(stock_calls) == len(S) and len({p for p, _ in stock_calls}) == len(S))
        for (path, df), (name, (sp, d, I, O, ST)) in zip(stock_calls, S.items()):
            w.ob(f"stock_file_name[{name}]", os.path.basename(path) == to_valid_file_name(name) + "_stock.csv")
            _check_df(w, f"stock_csv[{name}]", df, d, ST)
        w.ob("three_files_per_stock_with_in_and_out", len(stock_io_calls) == 3 * len(S) and len({p for p, _ in stock_io_calls}) == 3 * len(S))
        it = iter(stock_io_calls)
        for name, (sp, d, I, O, ST) in S.items():
            for attr, V in (("stock", ST), ("inflow", I), ("outflow", O)):
                path, df = next(it, (None, None))
                if path is None:
                    break
                w.ob(f"stock_io_file_name[{name}.{attr}]", os.path.basename(path) == f"{to_valid_file_name(name)}_{attr}.csv")
                _check_df(w, f"stock_io_csv[{name}.{attr}]", df, d, V)
    # exporting does not alter the system
    for name, (a, b, d, V) in F.items():
        w.ob_arr_eq(f"system_flow_unchanged[{name}]", mfa.flows[name].values, V)
    for name, (sp, d, I, O, ST) in S.items():
        w.ob_arr_eq(f"system_stock_unchanged[{name}]", mfa.stocks[name].stock.values, ST)
        w.ob_arr_eq(f"system_inflow_unchanged[{name}]", mfa.stocks[name].inflow.values, I)

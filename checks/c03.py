"""C03 -- computed stocks conserve mass: stock change = net inflow x interval length."""
from __future__ import annotations

import numpy as np

from checks import dsm

PROPERTY = "C03"
FUNCTIONS = ["Stock._to_whole_period", "Stock._to_annual", "SimpleFlowDrivenStock.compute", "InflowDrivenDSM.compute",
             "InflowDrivenDSM._compute_stock", "DynamicStockModel._compute_outflow", "StockDrivenDSM._compute_inflow_manual",
             "StockDrivenDSM._compute_inflow_lapack", "UnevenTimeDim.compute_t_bounds", "LifetimeModel.compute_survival_factor",
             "LifetimeModel.compute_outflow_pdf", "Stock.get_stock_balance", "Stock.check_stock_balance"]
ASSUMPTIONS = ["time items strictly increasing (unit / constant step d>0 / arbitrary, as assumptions on the symbolic items)",
               "survival table entries in [0,1]; diagonal entries >= 1/20 for the stock-driven classes",
               "scipy.linalg.solve_triangular satisfies its documented contract (lapack solver); np.allclose only guards a warning (both outcomes explored)"]
OUTSIDE = ["more than n time steps (see bounds)", "IEEE rounding", "LAPACK internals", "scipy distribution kernels (symbolic tier uses a free table; linear tier uses their float output as exact rationals)"]
VARIANTS = 'same stock object computed before; every array handed over as a transposed view (two label dimensions); a second model on another grid; first-step perturbation of the balance; multi-point rule and inflow_at=end with the shipped classes; a label dimension lettered c and as long as the time dimension'
BOUNDS = {
    "quick": dict(symbolic_tier="n in {3,4}, one extra dimension of length 2 (and none), grids unit/const/uneven, 4 stock classes",
                  real_class_tier="n in {3,4}, the five shipped lifetime classes with symbolic scalar parameters (scipy kernels as uninterpreted functions), symbolic grid"),
    "thorough": dict(symbolic_tier="n in 3..8, extra dims (), (2,), (2,2) (n>=6: up to (2,); n=8: none)", real_class_tier="n in 3..6, inflow_at start/middle/end and 3-point quadrature"),
}
for _t in BOUNDS.values():
    _t["variants_beyond_the_base_enumeration"] = VARIANTS
# dtype shadow: every shadowed configuration is run once more on integer-dtype arrays (differential concrete run)
DTYPE_SHADOW = lambda cfg: cfg["h"] == "conserve"
OPTS = {"quick": dict(shadow_every=4, timeout_ms=20000), "thorough": dict(shadow_every=6, timeout_ms=120000)}
KINDS = ["flow", "idsm", "sdsm_manual", "sdsm_lapack"]

LT_PARAMS = [
    ("FixedLifetime", dict(mean=2.5)), ("NormalLifetime", dict(mean=3.0, std=1.0)), ("FoldedNormalLifetime", dict(mean=2.0, std=1.5)),
    ("LogNormalLifetime", dict(mean=3.0, std=1.0)), ("WeibullLifetime", dict(weibull_shape=1.7, weibull_scale=3.5)),
]
LT_GRIDS = {"unit": lambda n: [2000 + i for i in range(n)], "const5": lambda n: [2000 + 5 * i for i in range(n)],
            "uneven": lambda n: [2000 + dsm._UNEVEN[i] for i in range(n)]}


def configs(tier, seed):
    out = []
    ns = [3, 4] if tier == "quick" else [3, 4, 5, 6, 7, 8]
    extras = [{}, {"r": 2}] if tier == "quick" else [{}, {"r": 2}, {"r": 2, "p": 2}]
    for kind in KINDS:
        for grid in dsm.GRIDS:
            for n in ns:
                for extra in extras:
                    if (n >= 6 and len(extra) > 1) or (n >= 8 and len(extra) > 0):
                        continue
                    ek = "x".join(f"{l}{k}" for l, k in extra.items()) or "-"
                    out.append(dict(h="conserve", op=kind, key=f"conserve/{kind}/grid={grid}/n={n}/extra={ek}", kind=kind, grid=grid, n=n, extra=extra))
                    out.append(dict(h="balance", op=kind, key=f"balance/{kind}/grid={grid}/n={n}/extra={ek}", kind=kind, grid=grid, n=n, extra=extra))
    # the same stock object computed before with other drivers; every array handed over as a transposed view (two label dims)
    for kind in KINDS:
        for grid in ("uneven", "const"):
            out.append(dict(h="conserve", op=kind + "again", key=f"conserve/{kind}/grid={grid}/n=3/extra=r2/computed_before", kind=kind, grid=grid, n=3, extra={"r": 2}, again=True))
        # a label dimension lettered c (as in "cohort") and as long as the time dimension
        out.append(dict(h="conserve", op=kind + "c", key=f"conserve/{kind}/grid=uneven/n=3/extra=c3", kind=kind, grid="uneven", n=3, extra={"c": 3}))
        for extra in ({"r": 2, "p": 2}, {"r": 2, "p": 3}):
            ek = "x".join(f"{l}{k}" for l, k in extra.items())
            out.append(dict(h="conserve", op=kind + "layout", key=f"conserve/{kind}/grid=const/n=3/extra={ek}/arrays=transposed_views", kind=kind, grid="const", n=3, extra=extra, prealloc=True))
    # a second model on another grid with the same end points and length, built after a first one in the same process
    for kind in ["flow", "idsm", "sdsm_manual"]:
        for n in ([4] if tier == "quick" else [4, 5]):
            out.append(dict(h="second_grid", op=kind, key=f"second_grid/{kind}/n={n}", kind=kind, grid="uneven", n=n, extra={"r": 2}))
    # real lifetime classes (symbolic scalar parameters, scipy kernels as uninterpreted functions)
    # (stock-driven x real class adds no flodym code over stock-driven x free table + inflow-driven x real
    #  class, and its nested quotients over uninterpreted functions cost minutes per configuration)
    for kind in ["idsm"]:
        for lt, prm in LT_PARAMS:
            for g in dsm.GRIDS:
                for n in ([3, 4] if tier == "quick" else [3, 4, 5, 6]):
                    for extra in ([{"r": 2}] if tier == "quick" else [{}, {"r": 2}]):
                        for inflow_at, npts in (([("middle", 1)] + ([("middle", 3), ("end", 1)] if (n == 3 and g == "uneven") else [])) if tier == "quick" else [("start", 1), ("middle", 1), ("end", 1), ("middle", 3)]):
                            ek = "x".join(f"{l}{k}" for l, k in extra.items()) or "-"
                            out.append(dict(h="realclass", op=kind + lt, key=f"realclass/{kind}/{lt}/grid={g}/n={n}/extra={ek}/{inflow_at}{npts}",
                                            kind=kind, lt=lt, prm=sorted(prm), grid=g, n=n, extra=extra, inflow_at=inflow_at, npts=npts))
    return out


def ctx_setup(cfg, c):
    c.purify_div = cfg.get("kind", "").startswith("sdsm")


def _drive_names(kind):
    return {"flow": ["in", "out"], "idsm": ["in"]}.get(kind, ["st"])


def _drive(w, kind, shape):
    if kind == "flow":
        return dict(inflow=w.arr("in", shape), outflow=w.arr("out", shape))
    if kind == "idsm":
        return dict(inflow=w.arr("in", shape))
    return dict(stock=w.arr("st", shape))


def _conservation_obs(w, st, dt, shape, chain):
    n = shape[0]
    S, I, O = st.stock.values, st.inflow.values, st.outflow.values
    for lab in dsm.labels(shape[1:]):
        cum = 0
        for t in range(n):
            prev = S[(t - 1,) + lab] if t > 0 else 0
            net = dt[t] * (I[(t,) + lab] - O[(t,) + lab])
            w.ob_eq(f"stock_step[{t}]{list(lab)}", S[(t,) + lab] - prev, net, chain=chain)
            cum = cum + net
            w.ob_eq(f"cumulative[{t}]{list(lab)}", S[(t,) + lab], cum, chain=chain)


def run(cfg, w):
    import flodym.lifetime_models as lm

    n, kind, extra = cfg["n"], cfg["kind"], cfg["extra"]
    h = cfg["h"]
    if h == "realclass":
        y, dt, b = dsm.make_grid(w, n, cfg["grid"])
        dims = dsm.make_dims(y, extra)
        shape = dims.shape
        prm = {}
        for name in cfg["prm"]:
            prm[name] = w.real("prm_" + name, default={"mean": 3.0, "std": 1.0, "weibull_shape": 1.7, "weibull_scale": 3.5}[name])
            w.assume(w.gt(prm[name], 0))
        lifetime = getattr(lm, cfg["lt"])(dims=dims, inflow_at=cfg["inflow_at"], n_pts_per_interval=cfg["npts"], **prm)
        st = dsm.build_stock(kind, dims, lifetime=lifetime, **_drive(w, kind, shape))
        st.compute()
        _conservation_obs(w, st, dt, shape, chain=kind.startswith("sdsm"))
        return
    y, dt, b = dsm.make_grid(w, n, cfg["grid"])
    if h == "second_grid":
        # first model on grid y; then the model under test on y2 = (y0, fresh interior items, y_last)
        d1 = dsm.make_dims(y, extra)
        lt1 = None if kind == "flow" else dsm.AnyLifetime(dims=d1, table=dsm.sf_table(w, n, d1.shape[1:], name="sfa", constrain=("range",), diag_min=(0.05 if kind.startswith("sdsm") else None)))
        drv1 = {{"in": "inflow", "out": "outflow", "st": "stock"}[k_]: w.arr("a" + k_, d1.shape) for k_ in _drive_names(kind)}
        s1 = dsm.build_stock(kind, d1, lifetime=lt1, **drv1)
        s1.compute()
        y2 = [y[0]] + [w.real(f"z{i}", default=float(2000 + dsm._UNEVEN[i]) + 0.5) for i in range(1, n - 1)] + [y[-1]]
        for i in range(n - 1):
            w.assume(w.gt(y2[i + 1] - y2[i], 0))
        y = y2
        dt, b = dsm.oracle_bounds(y)
    dims = dsm.make_dims(y, extra)
    shape = dims.shape
    lifetime = None
    if kind != "flow":
        tab = dsm.sf_table(w, n, shape[1:], constrain=("range",), diag_min=(0.05 if kind.startswith("sdsm") else None))
        lifetime = dsm.AnyLifetime(dims=dims, table=tab)
    drv = _drive(w, kind, shape)
    w.set_scale(*drv.values())
    if cfg.get("prealloc"):
        arrays = {}
        for q in ("inflow", "outflow", "stock"):
            arrays[q] = dsm.prealloc(w, shape)
            if q in drv:
                arrays[q][...] = drv[q]
        st = dsm.build_stock(kind, dims, lifetime=lifetime, keep_layout=True, **arrays)
    elif cfg.get("again"):
        first = {q: w.arr("before_" + q, shape) for q in drv}
        st = dsm.build_stock(kind, dims, lifetime=lifetime, **first)
        st.compute()
        for q, v in drv.items():
            getattr(st, q).set_values(v.copy())
    else:
        st = dsm.build_stock(kind, dims, lifetime=lifetime, **drv)
    st.compute()
    chain = kind.startswith("sdsm")
    if h in ("conserve", "second_grid"):
        _conservation_obs(w, st, dt, shape, chain)
        return
    # ---- balance: self-check accepts every computed stock, rejects a perturbed one
    bal = st.get_stock_balance()
    w.ob("balance_shape", np.shape(bal) == shape)
    if np.shape(bal) == shape:
        for idx in np.ndindex(*shape):
            w.lemma_eq(f"balance_zero{list(idx)}", bal[idx], 0)
    try:
        st.check_stock_balance()
        w.ob("check_accepts_computed_stock", True)
    except Exception as e:
        w.ob("check_accepts_computed_stock", False, info=f"{type(e).__name__}: {str(e)[:120]}")
    # perturb the FIRST step only (inflow of the first time item): stock(0) - 0 = dt(0) * (inflow(0) - outflow(0)) is part of the balance
    d0 = w.real("delta_first", default=-4)
    w.assume(w.or_(w.gt(d0 * dt[0], 1), w.lt(d0 * dt[0], -1)))
    lab_f = dsm.labels(shape[1:])[0]
    keep = st.inflow.values[(0,) + lab_f]
    st.inflow.values[(0,) + lab_f] = keep + d0
    bal_f = st.get_stock_balance()
    for idx in np.ndindex(*shape):
        w.lemma_eq(f"first_step_perturbed_balance{list(idx)}", bal_f[idx], (d0 * dt[0]) if (idx[0] == 0 and idx[1:] == lab_f) else 0)
    try:
        st.check_stock_balance()
        w.ob("check_rejects_stock_perturbed_in_the_first_step", False, info="accepted an inflow of the first time item that is off by more than 1 in whole-period terms")
    except RuntimeError:
        w.ob("check_rejects_stock_perturbed_in_the_first_step", True)
    st.inflow.values[(0,) + lab_f] = keep
    # perturb one stock entry beyond the threshold
    delta = w.real("delta", default=3)
    w.assume(w.or_(w.gt(delta, 1), w.lt(delta, -1)))
    t0 = n // 2
    lab0 = dsm.labels(shape[1:])[-1]
    st.stock.values[(t0,) + lab0] = st.stock.values[(t0,) + lab0] + delta
    bal2 = st.get_stock_balance()
    for idx in np.ndindex(*shape):
        exp = 0
        if idx[1:] == lab0 and idx[0] == t0:
            exp = -delta
        elif idx[1:] == lab0 and idx[0] == t0 + 1:
            exp = delta
        w.lemma_eq(f"perturbed_balance{list(idx)}", bal2[idx], exp)
    try:
        st.check_stock_balance()
        w.ob("check_rejects_perturbed_stock", False, info="accepted a stock perturbed by |delta| > 1")
    except RuntimeError:
        w.ob("check_rejects_perturbed_stock", True)

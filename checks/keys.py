"""Shared enumeration of index keys (C04, C05, C06, C13, C15).

A *selector tuple* has one entry per dimension of the array, in storage order:
  ("none",) | ("item", i) | ("sub", [i, ...]) | ("list", [i, ...])
``build_key`` turns it into the object handed to ``x[...]`` in one of the spellings.
"""
from __future__ import annotations

import numpy as np

import itertools

from svx.configs import NAMES, items_of

SUBLETTER = {"a": "u", "b": "v", "c": "w", "d": "x", "e": "y", "t": "s"}


def ordered_nonempty_subsets(n, max_size=None):
    out = []
    for k in range(1, (max_size or n) + 1):
        for comb in itertools.combinations(range(n), k):
            for perm in itertools.permutations(comb):
                out.append(list(perm))
    return out


def selector_tuples(xd, lens, kinds=("none", "item", "sub"), sub_limit=None, max_sub_dims=None):
    per_dim = []
    for l in xd:
        opts = []
        if "none" in kinds:
            opts.append(("none",))
        if "item" in kinds:
            opts += [("item", i) for i in range(lens[l])]
        if "sub" in kinds:
            opts += [("sub", s) for s in ordered_nonempty_subsets(lens[l], sub_limit)]
        if "list" in kinds:
            opts += [("list", s) for s in ordered_nonempty_subsets(lens[l], sub_limit)]
        per_dim.append(opts)
    for combo in itertools.product(*per_dim):
        if max_sub_dims is not None and sum(1 for c in combo if c[0] in ("sub", "list")) > max_sub_dims:
            continue
        yield combo


def sel_key(sel):
    def one(s):
        if s[0] == "none":
            return "_"
        if s[0] == "item":
            return str(s[1])
        return ("S" if s[0] == "sub" else "L") + "".join(map(str, s[1]))
    return ".".join(one(s) for s in sel)


def spellings(sel):
    """which key spellings can express this selector tuple"""
    kinds = {s[0] for s in sel}
    out = ["dictl", "dictn"]
    if kinds <= {"none"}:
        out.append("ellipsis")
    if kinds <= {"none", "item"} and "item" in kinds:
        out.append("tuple")
        out.append("tuple_rev")
    return out


def build_key(sel, xd, dims, spelling):
    """returns (key, subdims) ; subdims: letter -> new Dimension used for 'sub' selectors"""
    from flodym import Dimension

    subdims = {}
    if spelling == "ellipsis":
        return Ellipsis, subdims
    if spelling in ("tuple", "tuple_rev"):
        items = [dims[l].items[s[1]] for l, s in zip(xd, sel) if s[0] == "item"]
        if spelling == "tuple_rev":
            items = items[::-1]
        return (items[0] if len(items) == 1 else tuple(items)), subdims
    key = {}
    listform = {"dictl_nd": "ndarray", "dictl_tup": "tuple", "dictl_it": "dictkeys"}.get(spelling)
    for l, s in zip(xd, sel):
        k = dims[l].name if spelling == "dictn" else l
        if s[0] == "item":
            key[k] = dims[l].items[s[1]]
        elif s[0] == "sub":
            sd = Dimension(name="Sub" + NAMES[l], letter=SUBLETTER[l], items=[dims[l].items[i] for i in s[1]])
            subdims[l] = sd
            key[k] = sd
        elif s[0] == "list":
            its = [dims[l].items[i] for i in s[1]]
            # several items of one dimension as a list, or as another iterable of items: an ndarray, a tuple, the keys of a dict
            key[k] = its if listform is None else np.array(its) if listform == "ndarray" else tuple(its) if listform == "tuple" else dict.fromkeys(its).keys()
    return key, subdims


def region(sel, xd, lens):
    """(out letters after slicing, per-out-dim list of source indices, fixed indices)
    out letters use the substitute letter for 'sub' selectors."""
    out_letters = []
    out_idx = []
    fixed = {}
    for l, s in zip(xd, sel):
        if s[0] == "none":
            out_letters.append(l)
            out_idx.append(list(range(lens[l])))
        elif s[0] == "item":
            fixed[l] = s[1]
        elif s[0] == "sub":
            out_letters.append(SUBLETTER[l])
            out_idx.append(list(s[1]))
        else:  # list: dimension kept under its own letter, partially addressed
            out_letters.append(l)
            out_idx.append(list(s[1]))
    return out_letters, out_idx, fixed


def src_index(sel, xd, pos):
    """source index tuple of x for result position `pos` (tuple over the out dims)"""
    it = iter(pos)
    idx = []
    for l, s in zip(xd, sel):
        if s[0] == "none":
            idx.append(next(it))
        elif s[0] == "item":
            idx.append(s[1])
        else:
            idx.append(s[1][next(it)])
    return tuple(idx)

"""C09 -- cohort tables add up to the totals and each cohort is conserved."""
from __future__ import annotations

import numpy as np

from checks import dsm

PROPERTY = "C09"
FUNCTIONS = ["FixedLifetime._survival_by_year_id", "InflowDrivenDSM._compute_stock", "DynamicStockModel._compute_outflow", "StockDrivenDSM._compute_cohorts_and_inflow",
             "DynamicStockModel.get_stock_by_cohort", "DynamicStockModel.get_outflow_by_cohort", "LifetimeModel.compute_outflow_pdf"]
ASSUMPTIONS = ["time items strictly increasing", "survival table in [0,1], non-increasing with age; diagonal >= 1/20 for the stock-driven class",
               "scipy.linalg.solve_triangular satisfies its documented contract (lapack solver)"]
OUTSIDE = ["n beyond the bound", "IEEE rounding", "LAPACK internals"]
VARIANTS = 'computed before with another driver; result arrays as transposed views (2 label dims); inflow_at start / end; 33 time items on concrete 0/1 tables; a second model of the same shape computed before the tables are read; shipped classes with inflow_at start / end; a label dimension lettered c and as long as the time dimension'
BOUNDS = {"quick": dict(n=[3, 4], extra=["-", "r2"], grids=dsm.GRIDS, classes="idsm, sdsm manual, sdsm lapack", table="free symbolic (every lifetime model)"),
          "thorough": dict(n=[3, 4, 5, 6], extra=["-", "r2", "r2xp2"], grids=dsm.GRIDS, classes="as quick")}
for _t in BOUNDS.values():
    _t["variants_beyond_the_base_enumeration"] = VARIANTS
# dtype shadow: every shadowed configuration is run once more on integer-dtype arrays (differential concrete run)
DTYPE_SHADOW = lambda cfg: cfg["h"] == "cohorts"
OPTS = {"quick": dict(shadow_every=3, timeout_ms=20000), "thorough": dict(shadow_every=5, timeout_ms=120000)}
KINDS = ["idsm", "sdsm_manual", "sdsm_lapack"]


def configs(tier, seed):
    out = []
    ns = [3, 4] if tier == "quick" else [3, 4, 5, 6]
    extras = [{}, {"r": 2}] if tier == "quick" else [{}, {"r": 2}, {"r": 2, "p": 2}]
    for kind in KINDS:
        for grid in dsm.GRIDS:
            for n in ns:
                for extra in extras:
                    if n >= 5 and len(extra) > 1:
                        continue
                    ek = "x".join(f"{l}{k}" for l, k in extra.items()) or "-"
                    out.append(dict(h="cohorts", op=kind, key=f"cohorts/{kind}/grid={grid}/n={n}/extra={ek}", kind=kind, grid=grid, n=n, extra=extra))
                    if n == 3:
                        for ia in ("start", "end"):
                            out.append(dict(h="cohorts", op=kind + ia, key=f"cohorts/{kind}/grid={grid}/n={n}/extra={ek}/inflow_at={ia}", kind=kind, grid=grid, n=n, extra=extra, inflow_at=ia))
    if tier == "quick":
        for kind in ("sdsm_lapack", "sdsm_manual"):
            out.append(dict(h="cohorts", op=kind + "2d", key=f"cohorts/{kind}/grid=uneven/n=3/extra=r2xp2", kind=kind, grid="uneven", n=3, extra={"r": 2, "p": 2}))
            out.append(dict(h="cohorts", op=kind + "2d3", key=f"cohorts/{kind}/grid=const/n=3/extra=r2xp3", kind=kind, grid="const", n=3, extra={"r": 2, "p": 3}))
    # a label dimension lettered c (as in "cohort") and as long as the time dimension
    for kind in KINDS:
        out.append(dict(h="cohorts", op=kind + "c", key=f"cohorts/{kind}/grid=uneven/n=3/extra=c3", kind=kind, grid="uneven", n=3, extra={"c": 3}))
    # the model object was computed before with another driver (a scenario loop): every statement holds for the latest compute
    for kind in KINDS:
        for extra in ({}, {"r": 2}):
            for grid in ("unit", "uneven"):
                ek = "x".join(f"{l}{k}" for l, k in extra.items()) or "-"
                out.append(dict(h="cohorts", op=kind + "again", key=f"cohorts/{kind}/grid={grid}/n=3/extra={ek}/computed_before", kind=kind, grid=grid, n=3, extra=extra, again=True))
                # ... the new driver written through the values buffer instead of replacing it
                out.append(dict(h="cohorts", op=kind + "againw", key=f"cohorts/{kind}/grid={grid}/n=3/extra={ek}/computed_before_driver_written_in_place", kind=kind, grid=grid, n=3, extra=extra, again="inplace"))
    # a second model of the same class and shape is computed before the first one's tables are read (two stocks of one system)
    for kind in KINDS:
        for other in ("same_kind", "idsm"):
            out.append(dict(h="cohorts", op=kind + "two", key=f"cohorts/{kind}/grid=uneven/n=3/extra=r2/then_another_{other}_model_of_the_same_shape", kind=kind, grid="uneven", n=3, extra={"r": 2}, second=other))
    # result arrays handed over by the user in another memory layout (transposed views), two label dimensions
    for kind in KINDS:
        for extra in ({"r": 2, "p": 2}, {"r": 2, "p": 3}) if tier == "quick" else ({"r": 2, "p": 2}, {"r": 2, "p": 3}, {"r": 3, "p": 2, "q": 2}):
            ek = "x".join(f"{l}{k}" for l, k in extra.items())
            out.append(dict(h="cohorts", op=kind + "layout", key=f"cohorts/{kind}/grid=const/n=3/extra={ek}/result_arrays=transposed_views", kind=kind, grid="const", n=3, extra=extra, prealloc=True))
    # the shipped lifetime classes with parameters that vary over time (per cohort) and over labels
    for kind in KINDS:
        for lt in ("FixedLifetime", "NormalLifetime"):
            if lt == "FixedLifetime" and kind != "idsm":
                continue
            for ps in ("t", "tr", "r"):
                for grid in (["unit", "uneven"] if tier == "quick" else dsm.GRIDS):
                    out.append(dict(h="realclass", op=kind + lt, key=f"realclass/{kind}/{lt}/prm={ps}/grid={grid}", kind=kind, lt=lt, ps=ps, grid=grid, n=3 if kind != "idsm" else 4, extra={"r": 2}))
                    if ps == "r" and grid == "uneven" and kind == "idsm":
                        # a public setting of the lifetime model object is assigned after a first compute (no set_prms): whatever
                        # tables the second compute uses, the survival and the outflow table belong together
                        for setting in ("n_pts_per_interval", "inflow_at"):
                            out.append(dict(h="realclass", op=kind + lt + "set", key=f"realclass/{kind}/{lt}/prm={ps}/grid={grid}/{setting}_assigned_after_first_compute", kind=kind, lt=lt, ps=ps, grid=grid, n=3, extra={"r": 2}, assign=setting))
                    if ps == "r" and grid == "uneven":
                        # the shipped classes with the other inflow instants (the cohort enters at the start / end of its interval)
                        for ia in ("start", "end"):
                            out.append(dict(h="realclass", op=kind + lt + ia, key=f"realclass/{kind}/{lt}/prm={ps}/grid={grid}/inflow_at={ia}", kind=kind, lt=lt, ps=ps, grid=grid, n=3, extra={"r": 2}, inflow_at=ia))
    # survival shares that are exactly 0 or 1 (FixedLifetime, concrete lifetimes per cohort on concrete grids whose interval
    # lengths are powers of two, so that flodym's float reciprocals are exact): later cohorts out- or under-living earlier ones
    for kind in KINDS:
        for sched in FIXED_SCHEDULES:
            for grid in ("unit", "step2"):
                out.append(dict(h="fixed_concrete", op=kind + "fx", key=f"fixed_concrete/{kind}/{sched}/grid={grid}", kind=kind, sched=sched, grid=grid, n=6, extra={"r": 2}))
    # the same on long time dimensions (linear obligations: the length costs little)
    for kind in KINDS:
        for n in ([33] if tier == "quick" else [17, 32, 33, 65]):
            out.append(dict(h="fixed_concrete", op=kind + "fxlong", key=f"fixed_concrete/{kind}/zigzag/grid=unit/n={n}", kind=kind, sched="zigzag", grid="unit", n=n, extra={}))
    return out


FIXED_SCHEDULES = {"growing": [0.6, 2.6, 3.6, 3.6, 4.6, 4.6], "shrinking": [4.6, 3.6, 2.6, 0.6, 0.6, 0.6], "constant": [1.6] * 6, "zigzag": [2.6, 0.6, 3.6, 0.6, 1.6, 2.6]}


def ctx_setup(cfg, c):
    c.purify_div = cfg["kind"].startswith("sdsm")


def run(cfg, w):
    n, kind, extra = cfg["n"], cfg["kind"], cfg["extra"]
    if cfg["h"] == "fixed_concrete":
        return _fixed_concrete(cfg, w)
    y, dt, b = dsm.make_grid(w, n, cfg["grid"])
    dims = dsm.make_dims(y, extra)
    shape = dims.shape
    if cfg["h"] == "realclass":
        import flodym.lifetime_models as lm
        from flodym import FlodymArray
        from checks.c08 import _axioms

        ps = cfg["ps"]
        kw = {}
        for name in (["mean"] if cfg["lt"] == "FixedLifetime" else ["mean", "std"]):
            A = w.arr("prm_" + name, tuple(n if l == "t" else 2 for l in ps), default=lambda idx, name=name: {"mean": 1.4, "std": 0.8}[name] * (1 + 0.9 * sum((i + 1) * (k + 1) for k, i in enumerate(idx))))
            for x in A.flat:
                w.assume(w.gt(x, 0))
            kw[name] = FlodymArray(dims=dims.get_subset(tuple(ps)), values=A.copy())
        lifetime = getattr(lm, cfg["lt"])(dims=dims, inflow_at=cfg.get("inflow_at", "middle"), **kw)
        tab = lifetime.sf
        if w.sym:
            _axioms(w, w.ctx)
    else:
        tab = dsm.sf_table(w, n, shape[1:], constrain=("range", "mono"), diag_min=(0.05 if kind.startswith("sdsm") else None))
        lifetime = dsm.AnyLifetime(dims=dims, table=tab, inflow_at=cfg.get("inflow_at", "middle"))
    drive = dict(inflow=w.arr("in", shape)) if kind == "idsm" else dict(stock=w.arr("st", shape))
    w.set_scale(*drive.values())
    if cfg.get("prealloc"):
        # every array of the stock arrives from the caller as a transposed view (driver included)
        dk = "inflow" if kind == "idsm" else "stock"
        drv = dsm.prealloc(w, shape)
        drv[...] = drive[dk]
        arrays = {q: dsm.prealloc(w, shape) for q in ("inflow", "stock", "outflow") if q != dk}
        st = dsm.build_stock(kind, dims, lifetime=lifetime, keep_layout=True, **{dk: drv}, **arrays)
    elif cfg.get("again"):
        first = w.arr("before", shape)
        st = dsm.build_stock(kind, dims, lifetime=lifetime, **{k: first for k in drive})
        st.compute()
        if cfg["again"] == "inplace":
            (st.inflow if kind == "idsm" else st.stock).values[...] = list(drive.values())[0]
        else:
            (st.inflow if kind == "idsm" else st.stock).set_values(list(drive.values())[0].copy())
    else:
        st = dsm.build_stock(kind, dims, lifetime=lifetime, **drive)
    st.compute()
    if cfg.get("assign"):
        if cfg["assign"] == "n_pts_per_interval":
            st.lifetime_model.n_pts_per_interval = 3
        else:
            st.lifetime_model.inflow_at = "start"
        st.compute()
        tab = st.lifetime_model.sf  # the table the model now stands for
    if cfg.get("second"):
        k2 = kind if cfg["second"] == "same_kind" else "idsm"
        tab2 = dsm.sf_table(w, n, shape[1:], name="sg", constrain=("range",), diag_min=(0.05 if k2.startswith("sdsm") else None))
        st2 = dsm.build_stock(k2, dims, lifetime=dsm.AnyLifetime(dims=dims, table=tab2), name="second", **({"inflow": w.arr("in2", shape)} if k2 == "idsm" else {"stock": w.arr("st2", shape)}))
        st2.compute()
    chain = kind.startswith("sdsm")
    S, I, O = st.stock.values, st.inflow.values, st.outflow.values
    sbc, obc = st.get_stock_by_cohort(), st.get_outflow_by_cohort()
    cshape = (n,) + tuple(shape)
    w.ob("cohort_table_shapes", np.shape(sbc) == cshape and np.shape(obc) == cshape, info=f"{np.shape(sbc)} {np.shape(obc)}")
    if np.shape(sbc) != cshape or np.shape(obc) != cshape:
        return
    for lab in dsm.labels(shape[1:]):
        for t in range(n):
            ss, oo = 0, 0
            for c in range(n):
                ss = ss + sbc[(t, c) + lab]
                oo = oo + obc[(t, c) + lab]
                if c > t:
                    w.ob_eq(f"stock_by_cohort_zero_for_later_cohort[{t},{c}]{list(lab)}", sbc[(t, c) + lab], 0)
                    w.ob_eq(f"outflow_by_cohort_zero_for_later_cohort[{t},{c}]{list(lab)}", obc[(t, c) + lab], 0)
            w.ob_eq(f"stock_is_sum_of_cohorts[{t}]{list(lab)}", S[(t,) + lab], ss, chain=chain)
            w.ob_eq(f"outflow_is_sum_of_cohorts[{t}]{list(lab)}", O[(t,) + lab], oo, chain=chain)
        for c in range(n):
            entered = I[(c,) + lab] * dt[c]
            left = 0
            for t in range(c, n):
                w.ob_eq(f"cohort_stock_is_inflow_times_survival[{t},{c}]{list(lab)}", sbc[(t, c) + lab], entered * tab[(t, c) + lab], chain=chain)
                left = left + obc[(t, c) + lab] * dt[t]
                w.ob_eq(f"cohort_conserved[{t},{c}]{list(lab)}", entered, sbc[(t, c) + lab] + left, chain=chain)
                if t + 1 < n:
                    w.ob(f"cohort_stock_never_increases[{t},{c}]{list(lab)}",
                         w.implies(w.ge(I[(c,) + lab], 0), w.le(sbc[(t + 1, c) + lab], sbc[(t, c) + lab])), chain=chain)


def _fixed_concrete(cfg, w, check=None):
    import flodym.lifetime_models as lm
    from flodym import FlodymArray
    from fractions import Fraction

    n, kind = cfg["n"], cfg["kind"]
    step = 1 if cfg["grid"] == "unit" else 2
    y = [2000 + step * i for i in range(n)]
    dims = dsm.make_dims(y, cfg["extra"])
    shape = dims.shape
    sched = FIXED_SCHEDULES[cfg["sched"]]
    means = [sched[i % len(sched)] * step for i in range(n)]  # (the schedule repeats on longer grids)
    mean = FlodymArray(dims=dims.get_subset(("t",)), values=np.array(means, dtype=float))
    lifetime = lm.FixedLifetime(dims=dims, mean=mean)
    drive = dict(inflow=w.arr("in", shape)) if kind == "idsm" else dict(stock=w.arr("st", shape))
    w.set_scale(*drive.values())
    st = dsm.build_stock(kind, dims, lifetime=lifetime, **drive)
    st.compute()
    dt = [Fraction(step)] * n if w.sym else [float(step)] * n
    # the declared survival: cohort c is present at the end of year t iff its age (from the middle of its interval) is below its lifetime
    tab = np.zeros((n, n) + tuple(shape[1:]), dtype=object if w.sym else float)
    for c in range(n):
        for t in range(c, n):
            tab[t, c, ...] = 1 if (t - c + 0.5) * step < means[c] else 0
    if check is not None:
        return check(w, st, tab, dt, dims)
    S, I, O = st.stock.values, st.inflow.values, st.outflow.values
    sbc, obc = st.get_stock_by_cohort(), st.get_outflow_by_cohort()
    for lab in dsm.labels(shape[1:]):
        for t in range(n):
            ss, oo = 0, 0
            for c in range(n):
                ss = ss + sbc[(t, c) + lab]
                oo = oo + obc[(t, c) + lab]
            w.ob_eq(f"stock_is_sum_of_cohorts[{t}]{list(lab)}", S[(t,) + lab], ss)
            w.ob_eq(f"outflow_is_sum_of_cohorts[{t}]{list(lab)}", O[(t,) + lab], oo)
        for c in range(n):
            entered = I[(c,) + lab] * dt[c]
            left = 0
            for t in range(c, n):
                w.ob_eq(f"cohort_stock_is_inflow_times_survival[{t},{c}]{list(lab)}", sbc[(t, c) + lab], entered * tab[(t, c) + lab])
                left = left + obc[(t, c) + lab] * dt[t]
                w.ob_eq(f"cohort_conserved[{t},{c}]{list(lab)}", entered, sbc[(t, c) + lab] + left)

"""C06 -- indexing by item labels reads and writes exactly the addressed entries."""
from __future__ import annotations

import itertools

import numpy as np

from svx.configs import make_dimset, make_dim, label_tuples, lens_key, NAMES
from checks.keys import selector_tuples, sel_key, spellings, build_key, region, src_index, SUBLETTER

PROPERTY = "C06"
FUNCTIONS = ["SubArrayHandler._get_def_dict", "SubArrayHandler._get_key_single_item", "SubArrayHandler._to_dict_tuple",
             "SubArrayHandler._init_dims_out", "SubArrayHandler._init_ids", "SubArrayHandler._convert_lists_to_meshgrid",
             "SubArrayHandler._set_ids_single_dim", "SubArrayHandler.to_flodym_array", "FlodymArray.__getitem__", "FlodymArray.__setitem__",
             "Dimension.is_subset", "FlodymArray.items_where", "FlodymArray.split"]
ASSUMPTIONS = ["subset selections are Dimension objects with a fresh letter (replace() refuses a letter already in the set)"]
OUTSIDE = ["more than 5 dimensions", "FlodymArray right-hand sides under list selectors (partially addressed dimension keeps its full-length letter)",
           "items_where on arrays with more than 6 entries (one fork per entry)"]
VARIANTS = 'items_where with a NaN entry and conditions that hold at NaN; tuple keys mixing unknown and shared labels; keys that merely convert to an item of a typed dimension; integer items out of order / unevenly spaced; falsy labels'
BOUNDS = {
    "quick": dict(arrays="1-3 dims, lengths (3) (2,3) (3,2) (2,2) (2,2,2) (2,3,2) (1,2,3) (4) (5) (4,2) and one 5-d array (2,2,2,2,2) with single selections of the last item only", selectors="none / single item / subset Dimension (every ordered non-empty subset) / list (writes)",
                  spellings="dict by letter, dict by name, bare item, tuple (both orders), ellipsis", items_where_entries="<= 6"),
    "thorough": dict(arrays="quick + (3,3) (3,3,2) (2,2,2,2) (2,1,2,2,2) (2,2,2,2,2)", selectors="as quick; 5-dim arrays with subsets of <=2 items", spellings="as quick"),
}
for _t in BOUNDS.values():
    _t["variants_beyond_the_base_enumeration"] = VARIANTS
OPTS = {"quick": dict(shadow_every=60, max_paths=300), "thorough": dict(shadow_every=400, max_paths=300)}

SHAPES_Q = ["a3", "a2b3", "a3b2", "b2a2", "a2b2c2", "c2a3b2", "a1b2c3", "a4", "a5", "a4b2", "a2b2c2d2e2"]
SHAPES_T = SHAPES_Q + ["a3b3", "b3a3c2", "a2b2c2d2", "a2b1c2d2e2", "a3b2c2d2e3", "b5a2"]


def _parse(shape):
    xd = shape[0::2]
    lens = {shape[i]: int(shape[i + 1]) for i in range(0, len(shape), 2)}
    return xd, lens


def configs(tier, seed):
    out = []
    for shape in (SHAPES_Q if tier == "quick" else SHAPES_T):
        xd, lens = _parse(shape)
        big = len(xd) >= 4
        for sel in selector_tuples(xd, lens, ("none", "item", "sub"), sub_limit=2 if big else None, max_sub_dims=2 if big else None):
            if len(xd) >= 5 and tier == "quick" and any(s[0] == "item" and s[1] != lens[l] - 1 for l, s in zip(xd, sel)):
                continue  # 5-d arrays in the quick tier: single selections of the last item only
            for sp in spellings(sel):
                if big and sp == "dictn":
                    continue
                out.append(dict(h="read", op=sp, key=f"read/{shape}/{sel_key(sel)}/{sp}", xd=xd, lens=lens, sel=[list(s) for s in sel], sp=sp))
        # writes with number / ndarray right-hand sides, list selectors included
        wl = 2 if (big or len(xd) == 3) else None
        for sel in selector_tuples(xd, lens, ("none", "item", "sub", "list"), sub_limit=wl, max_sub_dims=2):
            if len(xd) >= 3 and sum(1 for s in sel if s[0] == "none") == 0 and tier == "quick" and sum(1 for s in sel if s[0] != "item") > 1:
                continue
            if len(xd) >= 5 and tier == "quick" and (any(s[0] == "item" and s[1] != lens[l] - 1 for l, s in zip(xd, sel)) or sum(1 for s in sel if s[0] in ("sub", "list")) > 1):
                continue
            for rhs in ("number", "ndarray"):
                sp = "dictl"
                out.append(dict(h="write", op=rhs, key=f"write/{shape}/{sel_key(sel)}/{rhs}", xd=xd, lens=lens, sel=[list(s) for s in sel], sp=sp, rhs=rhs))
        out.append(dict(h="errors", op="err", key=f"errors/{shape}", xd=xd, lens=lens))
        if int(np.prod(list(lens.values()))) <= 6:
            for cmp_ in ("isnan", "ne", "not_ge"):
                out.append(dict(h="items_where", op=cmp_ + "nan", key=f"items_where/{shape}/{cmp_}/nan_entry", xd=xd, lens=lens, cmp=cmp_, nan_entry=True))
            for cmp_ in ("gt", "lt"):
                out.append(dict(h="items_where", op=cmp_, key=f"items_where/{shape}/{cmp_}", xd=xd, lens=lens, cmp=cmp_))
                if len(xd) >= 2:
                    # labels of very different lengths, the longest ones NOT in the first dimension; numbers next to text
                    out.append(dict(h="items_where", op=cmp_ + "L", key=f"items_where/{shape}/{cmp_}/long_labels", xd=xd, lens=lens, cmp=cmp_, long_labels=True))
        for l in xd:
            out.append(dict(h="split", op="split", key=f"split/{shape}/{l}", xd=xd, lens=lens, l=l))
    # tuple keys whose items of one dimension are not adjacent (writes: a list selection; reads: refused)
    for shape in ["a3b2", "a2b2c2", "b3a2"]:
        xd, lens = _parse(shape)
        items = [(l, i) for l in xd for i in range(lens[l])]
        for k in (2, 3):
            for tup in itertools.permutations(items, k):
                if len({l for l, _ in tup}) == k:
                    continue  # one item per dimension: already covered by the tuple spelling of the read/write harness
                out.append(dict(h="tuple_key", op="tuple", key=f"tuple_key/{shape}/" + ",".join(f"{l}{i}" for l, i in tup), xd=xd, lens=lens, tup=[list(t) for t in tup]))
    for form in ("bare", "tuple1", "dict", "name"):
        for rhs in ("number", "ndarray", "read"):
            out.append(dict(h="falsy_label", op="falsy", key=f"falsy_label/{form}/{rhs}", xd="ab", lens=dict(a=3, b=2), form=form, rhs=rhs))
    out.append(dict(h="ambiguous", op="amb", key="ambiguous/shared-item", xd="ab", lens=dict(a=2, b=2)))
    # integer items that look like a range at both ends but are not in ascending order inside, or not evenly spaced
    for items in ([2020, 2022, 2021, 2023], [3, 1, 2], [1990, 2000, 2005, 2020], [5, 4, 3, 2]):
        for form in ("bare", "dict", "tuple", "list"):
            for rhs in ("read", "number", "ndarray"):
                if form == "list" and rhs == "read":
                    continue
                out.append(dict(h="int_labels", op="intl", key=f"int_labels/{'_'.join(map(str, items))}/{form}/{rhs}", xd="ta", lens=dict(t=len(items), a=2), items=items, form=form, rhs=rhs))
    # an integer-labelled dimension stored first, selected by one item, next to a list / subset on the last dimension, with a
    # kept dimension in between (3-d; equal lengths of the first and last dimension)
    for items in ([2000, 2001, 2002], [2002, 2000, 2001], [0, 1, 2]):
        for rhs in ("read", "number", "ndarray"):
            out.append(dict(h="int_first_axis", op="intf", key=f"int_first_axis/{'_'.join(map(str, items))}/{rhs}", xd="tab", lens=dict(t=3, a=2, b=3), items=items, rhs=rhs))
    # keys that are not items of a typed dimension but would convert to one (2010.5, "2010", 1 for "1") are unknown items
    for form in ("dict_letter", "dict_name", "bare", "tuple", "list", "subset"):
        out.append(dict(h="typed_keys", op="typed", key=f"typed_keys/{form}", xd="ts", lens=dict(t=3, s=2), form=form))
    out.append(dict(h="shared_labels", op="shared", key="shared_labels/two-dims-same-labels-other-positions", xd="ab", lens=dict(a=3, b=4)))
    return out


def _sel(cfg):
    return tuple(tuple(s) if s[0] != "sub" and s[0] != "list" else (s[0], list(s[1])) for s in cfg["sel"])


def run(cfg, w):
    from flodym import FlodymArray, Dimension, DimensionSet

    xd, lens = cfg["xd"], cfg["lens"]
    dims = {l: make_dim(l, n) for l, n in lens.items()}
    if cfg.get("long_labels"):
        pool = ["x", "aluminium and its alloys", "st", "a label that is considerably longer than the rest", "y2"]
        for k_, l in enumerate(xd):
            n_ = lens[l]
            dims[l] = make_dim(l, n_, items=([f"{l}{i}" for i in range(n_)] if k_ == 0 else [f"{pool[(i + k_) % len(pool)]} {l}{i}" for i in range(n_)]))
    h = cfg["h"]
    if h == "ambiguous":
        da = Dimension(name="Alpha", letter="a", items=["p", "q"])
        db = Dimension(name="Beta", letter="b", items=["q", "r"])
        X = w.arr("x", (2, 2))
        x = FlodymArray(dims=DimensionSet(dim_list=[da, db]), values=X.copy())
        for k in ("q", ("p", "q"), ("q", "r")):
            try:
                x[k]
                w.ob(f"ambiguous_item_rejected[{k}]", False)
            except Exception:
                w.ob(f"ambiguous_item_rejected[{k}]", True)
        for k in ("q", ("p", "q"), ("q", "r"), ("r", "q"), ("q", "p")):
            try:
                x[k] = 1.0
                w.ob(f"ambiguous_item_rejected_on_write[{k}]", False)
            except Exception:
                w.ob(f"ambiguous_item_rejected_on_write[{k}]", True)
            w.ob_arr_eq(f"unchanged_after_ambiguous_write[{k}]", x.values, X)
        # one tuple naming an unknown item next to an item of two dimensions (the two errors must not cancel), in both orders,
        # and with a third dimension in between
        dc = Dimension(name="Gamma", letter="c", items=["u", "v"])
        X3 = w.arr("x3", (2, 2, 2))
        x3 = FlodymArray(dims=DimensionSet(dim_list=[da, dc, db]), values=X3.copy())
        for arr_, V_, keys in ((x, X, [("q", "nope"), ("nope", "q"), ("nope", "p", "q"), ("q", "q")]),
                               (x3, X3, [("q", "nope"), ("nope", "q"), ("u", "q", "nope"), ("nope", "u", "q"), ("q", "u", "q"), ("q", "nope", "nope2")])):
            for k in keys:
                tag = f"{arr_.dims.ndim}d:{k}"
                try:
                    arr_[k]
                    w.ob(f"unknown_plus_shared_item_rejected[{tag}]", False)
                except Exception:
                    w.ob(f"unknown_plus_shared_item_rejected[{tag}]", True)
                try:
                    arr_[k] = 1.0
                    w.ob(f"unknown_plus_shared_item_rejected_on_write[{tag}]", False)
                except Exception:
                    w.ob(f"unknown_plus_shared_item_rejected_on_write[{tag}]", True)
                w.ob_arr_eq(f"unchanged_after_rejected_write[{tag}]", arr_.values, V_)
        r = x["p"]
        w.ob("unique_item_dims", r.dims.letters == ("b",))
        w.ob_arr_eq("unique_item", r.values, X[0])
        r = x[{"a": "q"}]
        w.ob_arr_eq("named_dim_resolves_shared_item_a", r.values, X[1])
        r = x[{"b": "q"}]
        w.ob_arr_eq("named_dim_resolves_shared_item_b", r.values, X[:, 0])
        r = x["p", "r"]
        w.ob_eq("two_unique_items", r.values[()], X[0, 1])
        return
    if h == "int_first_axis":
        items = cfg["items"]
        dt_ = Dimension(name="Time", letter="t", items=list(items), dtype=int)
        da_ = Dimension(name="Alpha", letter="a", items=["a1", "a2"])
        db_ = Dimension(name="Beta", letter="b", items=["b1", "b2", "b3"])
        X = w.arr("x", (3, 2, 3))
        for pos, it in enumerate(items):
            for sel in (["b3", "b1"], ["b2"], ["b1", "b2", "b3"]):
                x = FlodymArray(dims=DimensionSet(dim_list=[dt_, da_, db_]), values=X.copy())
                cols = [db_.items.index(s_) for s_ in sel]
                tag = f"{it}:{'+'.join(sel)}"
                if cfg["rhs"] == "read":
                    sub = Dimension(name="Some beta", letter="u", items=list(sel))
                    r = x[{"t": it, "b": sub}]
                    w.ob(f"read[{tag}]:dims", tuple(r.dims.letters) == ("a", "u") and np.shape(r.values) == (2, len(sel)), info=f"{r.dims.letters} {np.shape(r.values)}")
                    if np.shape(r.values) == (2, len(sel)):
                        for i in range(2):
                            for j, c in enumerate(cols):
                                w.ob(f"read[{tag}]:entry[{i},{j}]", w.same(r.values[i, j], X[pos, i, c]))
                    continue
                if cfg["rhs"] == "number":
                    k = w.real(f"k{pos}_{len(sel)}_{cols[0]}")
                    x[{"t": it, "b": list(sel)}] = k
                    val = lambda i, j: k
                else:
                    R = w.arr(f"r{pos}_{len(sel)}_{cols[0]}", (2, len(sel)))
                    x[{"t": it, "b": list(sel)}] = R.copy()
                    val = lambda i, j: R[i, j]
                for idx in np.ndindex(3, 2, 3):
                    if idx[0] == pos and idx[2] in cols:
                        w.ob(f"write[{tag}]:inside{list(idx)}", w.same(x.values[idx], val(idx[1], cols.index(idx[2]))))
                    else:
                        w.ob(f"write[{tag}]:outside{list(idx)}", w.same(x.values[idx], X[idx]))
        return
    if h == "int_labels":
        items = cfg["items"]
        dt_ = Dimension(name="Time", letter="t", items=list(items), dtype=int)
        da_ = Dimension(name="Alpha", letter="a", items=["a1", "a2"])
        # (time not first: the addressed axis is not axis 0)
        X = w.arr("x", (2, len(items)))
        for pos, it in enumerate(items):
            x = FlodymArray(dims=DimensionSet(dim_list=[da_, dt_]), values=X.copy())
            key = {"bare": it, "dict": {"t": it}, "tuple": ("a2", it), "list": {"t": [it]}}[cfg["form"]]
            rows = [1] if cfg["form"] == "tuple" else [0, 1]
            if cfg["rhs"] == "read":
                r = x[key]
                want = X[1, pos] if cfg["form"] == "tuple" else X[:, pos]
                w.ob_arr_eq(f"read[{it}]", np.asarray(r.values), np.asarray(want))
                continue
            if cfg["rhs"] == "number":
                k = w.real(f"k{pos}")
                x[key] = k
                val = lambda r_: k
            else:
                shape_ = () if cfg["form"] == "tuple" else ((2, 1) if cfg["form"] == "list" else (2,))
                R = w.arr(f"r{pos}", shape_)
                x[key] = R.copy()
                val = (lambda r_: R[()]) if cfg["form"] == "tuple" else ((lambda r_: R[r_, 0]) if cfg["form"] == "list" else (lambda r_: R[r_]))
            for idx in np.ndindex(2, len(items)):
                if idx[1] == pos and idx[0] in rows:
                    w.ob(f"write[{it}]:inside{list(idx)}", w.same(x.values[idx], val(idx[0])))
                else:
                    w.ob(f"write[{it}]:outside{list(idx)}", w.same(x.values[idx], X[idx]))
        return
    if h == "typed_keys":
        dt_ = Dimension(name="Time", letter="t", items=[2000, 2010, 2020], dtype=int)
        ds_ = Dimension(name="Size", letter="s", items=["1", "2"], dtype=str)
        X = w.arr("x", (3, 2))
        x = FlodymArray(dims=DimensionSet(dim_list=[dt_, ds_]), values=X.copy())
        near = {"t": [2010.5, "2010", 2010.0001, "2010.0", True], "s": [1, 2.0, 1.0]}
        form = cfg["form"]
        for l, name in (("t", "Time"), ("s", "Size")):
            for k in near[l]:
                if k == 2010.0 and form != "subset":
                    continue
                key = {"dict_letter": {l: k}, "dict_name": {name: k}, "bare": k, "tuple": (k,), "list": {l: [k]},
                       "subset": {l: Dimension(name="Part", letter="u", items=[k])}}
                tag = f"{l}:{k!r}"
                try:
                    kk = key[form]
                except Exception:
                    continue  # (a Dimension cannot even be built from that item: nothing to index with)
                if form not in ("list",):
                    try:
                        x[kk]
                        w.ob(f"convertible_non_item_rejected_on_read[{tag}]", False, info="accepted")
                    except Exception:
                        w.ob(f"convertible_non_item_rejected_on_read[{tag}]", True)
                try:
                    x[kk] = 7.0
                    w.ob(f"convertible_non_item_rejected_on_write[{tag}]", False, info="accepted")
                except Exception:
                    w.ob(f"convertible_non_item_rejected_on_write[{tag}]", True)
                w.ob_arr_eq(f"unchanged[{tag}]", x.values, X)
        # the items themselves are found
        w.ob_arr_eq("true_item_read", x[{"t": 2010}].values, X[1])
        w.ob_arr_eq("true_item_read_str", x[{"s": "2"}].values, X[:, 1])
        return
    if h == "falsy_label":
        # labels that are falsy in Python (0, 0.0, "") address their entries like any other label
        da = Dimension(name="Age", letter="a", items=[0, 1, 2], dtype=int)
        db = Dimension(name="Beta", letter="b", items=["", "b2"])
        X = w.arr("x", (3, 2))
        x = FlodymArray(dims=DimensionSet(dim_list=[da, db]), values=X.copy())
        key = {"bare": 0, "tuple1": (0,), "dict": {"a": 0}, "name": {"Beta": ""}}[cfg["form"]]
        in_region = (lambda idx: idx[0] == 0) if cfg["form"] != "name" else (lambda idx: idx[1] == 0)
        rshape = (2,) if cfg["form"] != "name" else (3,)
        if cfg["rhs"] == "read":
            r = x[key]
            w.ob("dims", tuple(r.dims.letters) == (("b",) if cfg["form"] != "name" else ("a",)))
            w.ob_arr_eq("entries", r.values, X[0] if cfg["form"] != "name" else X[:, 0])
            return
        if cfg["rhs"] == "number":
            k = w.real("k")
            x[key] = k
            want = lambda pos: k
        else:
            R = w.arr("r", rshape)
            R0 = R.copy()
            x[key] = R
            want = lambda pos: R0[pos]
        for idx in np.ndindex(3, 2):
            if in_region(idx):
                w.ob(f"inside{list(idx)}", w.same(x.values[idx], want(idx[1] if cfg["form"] != "name" else idx[0])))
            else:
                w.ob(f"outside{list(idx)}", w.same(x.values[idx], X[idx]))
        return
    if h == "shared_labels":
        # two dimensions listing the same labels at other positions: a named selection uses its own dimension's positions
        da = Dimension(name="Origin", letter="a", items=["EUR", "USA", "CHN"])
        db = Dimension(name="Destination", letter="b", items=["USA", "CHN", "EUR", "IND"])
        X = w.arr("x", (3, 4))
        x = FlodymArray(dims=DimensionSet(dim_list=[da, db]), values=X.copy())
        for i, it in enumerate(da.items):
            w.ob_arr_eq(f"origin[{it}]", x[{"a": it}].values, X[i])
            w.ob_arr_eq(f"origin_by_name[{it}]", x[{"Origin": it}].values, X[i])
        for j, it in enumerate(db.items):
            w.ob_arr_eq(f"destination[{it}]", x[{"b": it}].values, X[:, j])
        w.ob_eq("both", x[{"a": "CHN", "b": "EUR"}].values[()], X[2, 2])
        sub = Dimension(name="SubOrigin", letter="u", items=["CHN", "EUR"])
        w.ob_arr_eq("subset", x[{"a": sub}].values, X[[2, 0]])
        k = w.real("k")
        x[{"a": ["USA", "EUR"], "b": "IND"}] = k
        for idx in np.ndindex(3, 4):
            w.ob(f"after_write{list(idx)}", w.same(x.values[idx], k if (idx[0] in (0, 1) and idx[1] == 3) else X[idx]))
        parts = x.split("a")
        for i, it in enumerate(da.items):
            w.ob_arr_eq(f"split[{it}]", parts[it].values, np.where(np.arange(4) == 3, 1, 0) * 0 + x.values[i])
        return
    shape = tuple(lens[l] for l in xd)
    X = w.arr("x", shape)
    from svx.configs import relayout

    x = FlodymArray(dims=make_dimset(xd, lens, dims), values=relayout(X.copy(), sum(map(ord, cfg["key"])) % 3), name="xx")
    if h == "tuple_key":
        tup = [tuple(t) for t in cfg["tup"]]
        key = tuple(dims[l].items[i] for l, i in tup)
        per_dim = {}
        for l, i in tup:
            per_dim.setdefault(l, [])
            if i not in per_dim[l]:
                per_dim[l].append(i)
        try:
            x[key]
            w.ob("several_items_of_one_dimension_refused_on_read", False, info=str(key))
        except Exception:
            w.ob("several_items_of_one_dimension_refused_on_read", True)
        k = w.real("k")
        x[key] = k
        for idx in np.ndindex(*shape):
            inside = all((idx[xd.index(l)] in sel) for l, sel in per_dim.items())
            w.ob(f"{'inside' if inside else 'outside'}{list(idx)}", w.same(x.values[idx], k if inside else X[idx]))
        return
    if h == "read":
        sel = _sel(cfg)
        key, subdims = build_key(sel, xd, dims, cfg["sp"])
        res = x[key]
        out_letters, out_idx, fixed = region(sel, xd, lens)
        oshape = tuple(len(i) for i in out_idx)
        ok = tuple(res.dims.letters) == tuple(out_letters) and tuple(np.shape(res.values)) == oshape
        w.ob("dims", ok, info=f"got {res.dims.letters}/{np.shape(res.values)} want {out_letters}/{oshape}")
        if not ok:
            return
        # items of every result dimension in the requested order
        it_ok = True
        for ol, oi, (l, s) in zip(out_letters, out_idx, [(l, s) for l, s in zip(xd, sel) if s[0] != "item"]):
            it_ok = it_ok and res.dims[ol].items == [dims[l].items[i] for i in oi]
        w.ob("items", it_ok)
        for pos in np.ndindex(*oshape):
            w.ob(f"entry{list(pos)}", w.same(res.values[pos], X[src_index(sel, xd, pos)]))
        if not oshape:
            w.ob("entry[]", w.same(res.values[()], X[src_index(sel, xd, ())]))
        w.ob_arr_eq("x_unchanged", x.values, X)
        return
    if h == "write":
        sel = _sel(cfg)
        key, subdims = build_key(sel, xd, dims, cfg["sp"])
        out_letters, out_idx, fixed = region(sel, xd, lens)
        oshape = tuple(len(i) for i in out_idx)
        if cfg["rhs"] == "number":
            k = w.real("k")
            x[key] = k
            want = lambda pos: k
        else:
            R = w.arr("r", oshape)
            R0 = R.copy()
            x[key] = R
            want = lambda pos: R0[pos]
        w.ob("dims_unchanged", tuple(x.dims.letters) == tuple(xd) and np.shape(x.values) == shape)
        if np.shape(x.values) != shape:
            return
        written = {}
        for pos in np.ndindex(*oshape):
            written[src_index(sel, xd, pos)] = want(pos)
        for idx in np.ndindex(*shape):
            if idx in written:
                w.ob(f"inside{list(idx)}", w.same(x.values[idx], written[idx]))
            else:
                w.ob(f"outside{list(idx)}", w.same(x.values[idx], X[idx]))
        if cfg["rhs"] == "ndarray" and R.size:
            # an assigned ndarray is copied: later changes to it do not reach the target
            snap = x.values.copy()
            R[...] = w.real("later")
            w.ob_arr_eq("rhs_copied", x.values, snap)
        return
    if h == "errors":
        l0 = xd[0]
        bad = []
        bad.append(("unknown_bare_item", lambda: x["nope"]))
        bad.append(("unknown_item_in_dict", lambda: x[{l0: "nope"}]))
        bad.append(("unknown_item_in_tuple", lambda: x[dims[l0].items[0], "nope"]))
        bad.append(("numpy_slice", lambda: x[0:1]))
        bad.append(("numpy_slice_in_tuple", lambda: x[:, dims[l0].items[0]]))
        bad.append(("non_subset_dimension", lambda: x[{l0: Dimension(name="Subx", letter="u", items=[dims[l0].items[0], "zz"])}]))
        bad.append(("disjoint_dimension", lambda: x[{l0: Dimension(name="Subx", letter="u", items=["zz"])}]))
        bad.append(("list_selector_on_read", lambda: x[{l0: [dims[l0].items[0]]}]))
        bad.append(("unknown_dim_letter", lambda: x[{"z": "a1"}]))
        if lens[l0] > 1:
            bad.append(("several_items_of_one_dim_on_read", lambda: x[dims[l0].items[0], dims[l0].items[1]]))
        bad.append(("write_unknown_item", lambda: x.__setitem__({l0: "nope"}, 1.0)))
        bad.append(("write_non_subset_dimension", lambda: x.__setitem__({l0: Dimension(name="Subx", letter="u", items=["zz"])}, 1.0)))
        bad.append(("write_slice", lambda: x.__setitem__(slice(0, 1), 1.0)))
        for name, call in bad:
            try:
                call()
                w.ob(f"{name}_raises", False, info="accepted")
            except Exception:
                w.ob(f"{name}_raises", True)
            w.ob_arr_eq(f"{name}:x_unchanged", x.values, X)
        return
    if h == "items_where" and cfg.get("nan_entry"):
        # one entry is NaN (or not, both explored); conditions that hold at NaN report it like any other entry
        c = w.real("c")
        last = tuple(k - 1 for k in shape)
        flag = w.boolean("last_entry_is_nan", default=True)
        x.values[last] = w.with_nan(X[last], flag)
        cond = {"isnan": lambda v: np.isnan(v), "ne": lambda v: v != c, "not_ge": lambda v: ~(v >= c)}[cfg["cmp"]]
        rows = x.items_where(cond)
        rows = [tuple(r) for r in np.asarray(rows).reshape(-1, len(xd)).tolist()] if np.size(rows) else []
        w.ob("no_duplicate_rows", len(rows) == len(set(rows)))
        for idx in np.ndindex(*shape):
            lab = tuple(dims[l].items[i] for l, i in zip(xd, idx))
            isn = flag if idx == last else False
            if cfg["cmp"] == "isnan":
                holds = isn
            elif cfg["cmp"] == "ne":
                holds = w.or_(isn, w.ne(X[idx], c))
            else:
                holds = w.or_(isn, w.lt(X[idx], c))
            w.ob(f"reported_iff_condition{list(idx)}", w.iff(lab in rows, holds))
        return
    if h == "items_where":
        c = w.real("c")
        cond = (lambda v: v > c) if cfg["cmp"] == "gt" else (lambda v: v < c)
        rows = x.items_where(cond)
        rows = [tuple(r) for r in np.asarray(rows).reshape(-1, len(xd)).tolist()] if np.size(rows) else []
        w.ob("no_duplicate_rows", len(rows) == len(set(rows)))
        known = set()
        for idx in np.ndindex(*shape):
            lab = tuple(dims[l].items[i] for l, i in zip(xd, idx))
            known.add(lab)
            holds = (X[idx] > c) if cfg["cmp"] == "gt" else (X[idx] < c)
            w.ob(f"reported_iff_condition{list(idx)}", w.iff(lab in rows, holds))
        w.ob("only_true_labels", all(r in known for r in rows))
        return
    if h == "split":
        l = cfg["l"]
        parts = x.split(l)
        w.ob("split_keys", list(parts.keys()) == dims[l].items)
        rest = [k for k in xd if k != l]
        ax = xd.index(l)
        for i, item in enumerate(dims[l].items):
            p = parts.get(item)
            if p is None:
                continue
            w.ob(f"split_dims[{i}]", tuple(p.dims.letters) == tuple(rest))
            w.ob_arr_eq(f"split[{i}]", p.values, np.take(X, i, axis=ax))
        return
    raise RuntimeError(h)

"""Shared DataFrame layouts for C11 / C12 / C19: dimension sets, export layouts, header styles, permutations."""
from __future__ import annotations

import itertools

import numpy as np

# name -> list of (letter, Name, items, dtype)
DIMSETS = {
    "r2": [("r", "Region", ["r1", "r2"], str)],
    "p3u": [("p", "Product", ["p1", "p2", "p3"], None)],
    "t2i": [("t", "Time", [1, 2], int)],
    "t2i_r2": [("t", "Time", [1, 2], int), ("r", "Region", ["r1", "r2"], str)],
    "r2_t2i": [("r", "Region", ["r1", "r2"], str), ("t", "Time", [1, 2], int)],
    "r2_p3u": [("r", "Region", ["r1", "r2"], str), ("p", "Product", ["p1", "p2", "p3"], None)],
    "T2_r2": [("t", "Time", [2000, 2010], int), ("r", "Region", ["r1", "r2"], str)],
    "r2_s1": [("r", "Region", ["r1", "r2"], str), ("s", "Scenario", ["only"], str)],
    "s1_r2_p2": [("s", "Scenario", ["only"], str), ("r", "Region", ["r1", "r2"], str), ("p", "Product", ["p1", "p2"], None)],
    "T2_r2_p2": [("t", "Time", [2000, 2010], int), ("r", "Region", ["r1", "r2"], str), ("p", "Product", ["p1", "p2"], None)],
    "r3_p2_e2": [("r", "Region", ["r1", "r2", "r3"], str), ("p", "Product", ["p1", "p2"], None), ("e", "Element", ["Fe", "Cu"], str)],
    "T3_r2_p2_e2": [("t", "Time", [2000, 2005, 2010], int), ("r", "Region", ["r1", "r2"], str), ("p", "Product", ["p1", "p2"], None), ("e", "Element", ["Fe", "Cu"], str)],
    "u2i": [("u", "Unitno", [1, 2], None)],  # untyped numeric items
    "T3d_r2": [("t", "Time", [2010, 1990, 2000], int), ("r", "Region", ["r2", "r1"], str)],  # items not in ascending order
    "c3u": [("c", "Cohort", [2010.0, 1990.5, 2000.0], None)],
    "or2_r3": [("o", "Origin region", ["EUR", "USA"], str), ("r", "Region", ["CHN", "IND", "BRA"], str)],  # a name inside another name
    "o2_r3n": [("o", "Origin", ["EU", "US"], str), ("r", "Region", ["EU", "US", "CN"], str)],  # one item set inside another (still different sets)
    "n3i_r2": [("n", "Offset", [-1, 0, 2], int), ("r", "Region", ["r1", "r2"], str)],  # negative integer items
    "a3i0": [("a", "Age", [0, 1, 2], int)],  # a 1-d array whose items are exactly the default row numbers 0..n-1
    "m3u_r2": [("m", "Mixed", [1, "a", 2], None), ("r", "Region", ["r1", "r2"], str)],  # an untyped dimension whose items mix numbers and text
    "y1i_r2": [("y", "Year", [2020], int), ("r", "Region", ["r1", "r2"], str)],  # a single-item dimension whose item is an integer
    "f3u_r2": [("f", "Fraction", [0.5, 1.5, 2.5], None), ("r", "Region", ["r1", "r2"], str)],  # untyped fractional items (a float index when held in the index)
    "w2s_r2": [("w", "Material", ["  Steel", "Wood "], str), ("r", "Region", ["r1", "r2"], str)],  # text items with leading / trailing blanks (an indented label)
    "a3i0_e2": [("a", "Age", [0, 1, 2], int), ("e", "Element", ["", "Fe"], str)],  # labels that are falsy in Python
}


def build_dims(name):
    from flodym import Dimension, DimensionSet

    return DimensionSet(dim_list=[Dimension(name=N, letter=l, items=list(items), dtype=dt) for (l, N, items, dt) in DIMSETS[name]])


def numeric_items(name):
    out = set()
    for (_l, _N, items, _dt) in DIMSETS[name]:
        for it in items:
            if isinstance(it, (int, float)):
                out.add(it)
    return sorted(out)


def layouts(name, tier):
    """export layouts x header styles x permutations (structured, exhaustive for small frames)"""
    spec = DIMSETS[name]
    nd = len(spec)
    out = []
    d2cs = [None] + ([("name", i) for i in range(nd)] + [("letter", i) for i in range(nd)] if nd > 1 else [])
    for index in (True, False):
        for d2c in d2cs:
            if d2c is not None and d2c[0] == "letter" and tier == "quick" and d2c[1] != nd - 1:
                continue
            for header in ("names", "letters", "mixed", "items"):
                if header == "mixed" and nd < 2:
                    continue
                for valname in ("value", "amount"):
                    if d2c is not None and valname != "value":
                        continue  # wide frames have no value column name
                    if valname == "amount" and header not in ("names", "items"):
                        continue
                    for drop_single in ((False, True) if any(len(s[2]) == 1 for s in spec) else (False,)):
                        for rowperm in ("id", "rev", "rot"):
                            for colperm in (("id", "rev") if not index else ("id",)):
                                if tier == "quick" and rowperm == "rot" and header != "names":
                                    continue
                                out.append(dict(index=index, d2c=d2c, header=header, valname=valname, drop_single=drop_single, rowperm=rowperm, colperm=colperm))
    return out


def layout_key(L):
    d = "long" if L["d2c"] is None else f"wide{L['d2c'][0][0]}{L['d2c'][1]}"
    return f"{'idx' if L['index'] else 'col'}-{d}-{L['header']}-{L['valname']}-{'nos' if L['drop_single'] else 'all'}-{L['rowperm']}-{L['colperm']}"


def make_frame(x, name, L, sparse=False):
    """export x with to_df in the layout, then restyle headers / permute rows and columns"""
    import pandas as pd

    spec = DIMSETS[name]
    d2c = None
    if L["d2c"] is not None:
        kind, i = L["d2c"]
        d2c = spec[i][1] if kind == "name" else spec[i][0]
    df = x.to_df(index=L["index"], dim_to_columns=d2c, sparse=sparse)
    names = [s[1] for s in spec]
    wide_dim = spec[L["d2c"][1]][1] if L["d2c"] is not None else None

    def restyle(n, pos):
        if L["header"] == "names":
            return n
        j = names.index(n)
        if L["header"] == "letters" or (L["header"] == "mixed" and j % 2 == 0):
            return spec[j][0]
        if L["header"] == "mixed":
            return n
        return None if L["index"] else f"col{pos}"

    if L["drop_single"]:
        singles = [s[1] for s in spec if len(s[2]) == 1 and s[1] != wide_dim]
        if L["index"]:
            for n in singles:
                if isinstance(df.index, pd.MultiIndex) and n in df.index.names and df.index.nlevels > 1:
                    df = df.droplevel(n)
        else:
            df = df.drop(columns=[n for n in singles if n in df.columns])
    if L["index"]:
        if isinstance(df.index, pd.MultiIndex):
            df.index = df.index.set_names([restyle(n, k) for k, n in enumerate(df.index.names)])
        else:
            df.index = df.index.set_names(restyle(df.index.name, 0))
        if wide_dim is not None:
            df.columns.name = restyle(wide_dim, 0) if L["header"] != "items" else None
    else:
        ren = {}
        for k, c in enumerate(df.columns):
            if c in names:
                r = restyle(c, k)
                ren[c] = r
        df = df.rename(columns=ren)
        df.columns.name = None
    if L["valname"] != "value" and "value" in df.columns:
        df = df.rename(columns={"value": L["valname"]})
    n = len(df)
    if L["rowperm"] == "rev":
        df = df.iloc[::-1]
    elif L["rowperm"] == "rot" and n > 1:
        df = df.iloc[list(range(1, n)) + [0]]
    if L["colperm"] == "rev":
        df = df[list(df.columns)[::-1]]
    if not L["index"] and not (L["rowperm"] == "rot" and L["header"] == "names"):
        # (rotated name-headed column frames keep their old integer row labels, as after df.iloc[...] / sort_values)
        df = df.reset_index(drop=True)
    return df

"""A catalogue of public flodym operations, shared by C13 (shape invariant, failed calls change
nothing) and C15 (no input is modified, results are independent objects).

Every entry is a function of an environment E holding arrays over a small dimension universe with
symbolic values.  It returns (results, probe) where `results` are the FlodymArrays / DimensionSets it
produced and `probe` says whether the property lists the result among those that must be independent
of the sources ("copy, arithmetic, cast_to, full_like, slice reads").
"""
from __future__ import annotations

import numpy as np


class Env:
    def __init__(self, w):
        from flodym import Dimension, DimensionSet, FlodymArray, Flow, Parameter, StockArray, Process

        self.w = w
        self.D = {
            "a": Dimension(name="Alpha", letter="a", items=["a1", "a2"]),
            "b": Dimension(name="Beta", letter="b", items=["b1", "b2"]),
            "c": Dimension(name="Gamma", letter="c", items=["c1", "c2", "c3"]),
            "t": Dimension(name="Time", letter="t", items=[2000, 2001, 2003], dtype=int),
        }
        self.vals = {}
        self.arrays = {}
        for name, letters, cls in [("x", "ab", FlodymArray), ("y", "bc", FlodymArray), ("z", "ba", FlodymArray), ("s", "", FlodymArray),
                                   ("tx", "ta", StockArray), ("ty", "ta", StockArray), ("prm", "a", Parameter)]:
            ds = DimensionSet(dim_list=[self.D[l] for l in letters])
            V = w.arr(name, ds.shape, default=(lambda idx, name=name: 1.25 + 0.5 * sum((k + 2) * i for k, i in enumerate(idx)) + 0.1 * len(name)))
            self.vals[name] = V
            self.arrays[name] = cls(dims=ds, values=V.copy(), name=name)
        for v in self.vals["prm"].flat:
            w.assume(w.gt(v, 0))
        self.full = DimensionSet(dim_list=[self.D[l] for l in "tabc"])

    def __getattr__(self, k):
        if k in self.__dict__.get("arrays", {}):
            return self.arrays[k]
        raise AttributeError(k)

    def ds(self, letters):
        from flodym import DimensionSet

        return DimensionSet(dim_list=[self.D[l] for l in letters])

    def snapshot(self):
        return {n: (a.values, a.values.copy(), list(a.dims.dim_list), a.dims) for n, a in self.arrays.items()}

    def check_unchanged(self, tag, snap):
        w = self.w
        for n, (vobj, vcopy, dl, dobj) in snap.items():
            a = self.arrays[n]
            ok = isinstance(a.values, np.ndarray) and np.shape(a.values) == np.shape(vcopy)
            w.ob(f"{tag}:{n}:values_shape_unchanged", ok, info=f"{np.shape(a.values) if isinstance(a.values, np.ndarray) else type(a.values)}")
            if ok:
                same = True
                for idx in np.ndindex(*np.shape(vcopy)):
                    r = w.same(a.values[idx], vcopy[idx])
                    if r is not True:
                        w.ob(f"{tag}:{n}:value_unchanged{list(idx)}", r)
                        same = False
                if same:
                    w.ob(f"{tag}:{n}:values_unchanged", True)
            # the same Dimension objects in the same order (the DimensionSet wrapper itself may be re-created
            # by pydantic when a model instance is handed to another model: content, not identity, is the claim)
            w.ob(f"{tag}:{n}:dims_unchanged", [id(d) for d in a.dims.dim_list] == [id(d) for d in dl])


def _sub(E):
    from flodym import Dimension

    return Dimension(name="SubGamma", letter="w", items=["c3", "c1"])


def catalogue():
    """name -> (fn(E) -> list of results, independent: bool)"""
    from flodym import FlodymArray, Dimension, DimensionSet, Parameter, Flow, StockArray
    from flodym.flodym_array_helper import flodym_array_stack

    C = {}
    k = 2.5
    # arithmetic
    C["add"] = (lambda E: [E.x + E.y, E.x + E.z, E.z + E.x, E.tx + E.ty], True)
    C["sub"] = (lambda E: [E.x - E.z], True)
    C["mul"] = (lambda E: [E.x * E.y], True)
    C["div"] = (lambda E: [E.x / E.z], True)
    C["pow"] = (lambda E: [E.x ** E.prm], True)
    # both operands over exactly the same dimensions in the same order (nothing to cast, nothing to reorder), and 0-dim ones
    C["same_dims_operands"] = (lambda E: [E.tx + E.ty, E.tx - E.ty, E.tx * E.ty, E.tx / E.ty, E.tx ** E.ty, E.tx.minimum(E.ty), E.tx.maximum(E.ty), E.s ** E.s, E.s * E.s], True)
    C["minimum"] = (lambda E: [E.x.minimum(E.z)], True)
    C["maximum"] = (lambda E: [E.x.maximum(E.y)], True)
    C["add_same_dims"] = (lambda E: [E.x + E.x, E.x * 1, E.x + 0, E.x / 1, E.x - 0], True)
    C["neutral_reflected"] = (lambda E: [0 + E.x, 0.0 + E.x, 1 * E.x, 1.0 * E.x, sum([E.x]), sum([E.y], 0), E.x ** 1, E.s + 0, 0 + E.s], True)
    C["scalar_ops"] = (lambda E: [E.x + k, k + E.x, E.x - k, k - E.x, E.x * k, k * E.x, E.x / k, k / E.x, E.x ** 2], True)
    C["zero_dim_ops"] = (lambda E: [E.x + E.s, E.s + E.x, E.x * E.s, E.s * E.s, E.s - E.x], True)
    C["unary"] = (lambda E: [-E.x, abs(E.x), E.x.abs(), E.x.sign()], True)
    # reductions
    C["sum_to_all"] = (lambda E: [E.x.sum_to(("a", "b")), E.x.sum_to(("b", "a")), E.x.sum_over(())], False)
    C["sum_to_some"] = (lambda E: [E.x.sum_to(("a",)), E.x.sum_to(()), E.x.sum_over(("a",)), E.y.sum_over(("Gamma",))], False)
    C["sum_values"] = (lambda E: [E.x.sum_values(), E.x.sum_values_to(("a",)), E.x.sum_values_over(("b",))], False)
    C["cumsum"] = (lambda E: [E.x.cumsum("a"), E.y.cumsum("c")], False)
    C["shares"] = (lambda E: [E.x.get_shares_over(("a",)), E.x.get_shares_over(("a", "b"))], False)
    C["shares_over_nothing"] = (lambda E: [E.x.get_shares_over(()), E.y.get_shares_over("")], False)
    # casts
    C["cast_to_same"] = (lambda E: [E.x.cast_to(E.ds("ab")), E.x.cast_to(E.ds("ba"))], True)
    C["cast_to_bigger"] = (lambda E: [E.x.cast_to(E.ds("cab")), E.s.cast_to(E.ds("a"))], True)
    # slice reads, every key form
    C["read_item"] = (lambda E: [E.x["a1"], E.x[{"a": "a2"}], E.x[{"Alpha": "a1"}], E.y["c2"]], True)
    C["read_items"] = (lambda E: [E.x["a1", "b2"], E.x[{"a": "a1", "b": "b1"}]], True)
    C["read_ellipsis"] = (lambda E: [E.x[...], E.s[...], E.y[{}]], True)
    C["read_subset"] = (lambda E: [E.y[{"c": _sub(E)}], E.y[{"b": "b1", "c": _sub(E)}]], True)
    C["read_full_subset"] = (lambda E: [E.x[{"a": Dimension(name="AlphaAll", letter="u", items=["a1", "a2"])}]], True)
    C["split"] = (lambda E: list(E.x.split("a").values()) + list(E.y.split("c").values()), True)
    # copies and constructors
    C["copy"] = (lambda E: [E.x.copy(), E.s.copy(), E.tx.copy()], True)
    C["full_like"] = (lambda E: [FlodymArray.full_like(E.x, 1.5), FlodymArray.full_like(E.x, E.x.values[0, 0])], True)
    C["full_like_array_fill"] = (lambda E: _full_like_array_fill(E), True)
    C["full"] = (lambda E: [FlodymArray.full(E.x.dims, 2.0), FlodymArray.full(E.ds("ab"), E.x.values[0])], False)
    C["scalar"] = (lambda E: [FlodymArray.scalar(E.x.values[0, 0]), FlodymArray.scalar(3)], False)
    C["from_dims_superset"] = (lambda E: [FlodymArray.from_dims_superset(E.full, ("a", "b")), FlodymArray.from_dims_superset(E.full), Parameter.from_dims_superset(E.x.dims, ("b",))], False)
    C["constructor"] = (lambda E: [FlodymArray(dims=E.x.dims), FlodymArray(dims=E.x.dims, values=E.x.values.copy()), StockArray(dims=E.tx.dims, values=E.tx.values.copy())], False)
    # frames
    C["to_df"] = (lambda E: [E.x.to_df(), E.x.to_df(index=False), E.x.to_df(dim_to_columns="Alpha"), E.y.to_df(sparse=False)] and [], False)
    C["to_df_sparse_with_nan"] = (lambda E: _to_df_sparse_with_nan(E), False)
    C["from_df"] = (lambda E: [FlodymArray.from_df(dims=E.x.dims, df=E.x.to_df()), FlodymArray.from_df(dims=E.ds("ba"), df=E.x.to_df(dim_to_columns="b", index=False))], False)
    C["from_df_caller_frame"] = (lambda E: _from_df_frame(E), False)
    C["plain_after_inplace_unary"] = (lambda E: _plain_after_inplace(E), True)
    C["read_from_view_backed"] = (lambda E: _read_from_view_backed(E), True)
    # stack / split
    C["stack"] = (lambda E: [flodym_array_stack([E.x, E.z], Dimension(name="Stacked", letter="k", items=["k1", "k2"]))], False)
    # assignment leaves the right-hand side alone
    C["setitem_rhs"] = (lambda E: _setitem_rhs(E), False)
    return C


def _read_from_view_backed(E):
    """slice reads of arrays whose value buffers do not own their memory (a cast result, a transposed input, a strided
    view of a wider table): the sources are registered as inputs so that the independence probes cover them"""
    from flodym import FlodymArray

    big = E.x.cast_to(E.ds("cab"))
    tv = FlodymArray(dims=E.ds("ba"), values=E.vals["x"].copy().T, name="transposed")
    wide = np.concatenate([E.vals["y"].copy(), E.vals["y"].copy()], axis=1)
    sv = FlodymArray(dims=E.ds("bc"), values=wide[:, ::2], name="strided")
    re = FlodymArray(dims=E.ds("ab"), values=E.vals["x"].copy().reshape(4).reshape(2, 2), name="reshaped")
    E.arrays.update(cast_result=big, transposed=tv, strided=sv, reshaped=re)
    return [big["c1"], big[{"a": "a1"}], big["c2", "b1"], tv["b1"], tv[{"a": "a2"}], tv[...], sv["c2"], sv[{"b": "b2"}], re["a1"], re[{"b": "b2"}]] \
        + list(tv.split("a").values()) + list(big.split("c").values())


def _full_like_array_fill(E):
    """full_like with an ndarray of the template's full shape (and of a part of it) as the fill: the fill array stays the
    caller's own"""
    from flodym import FlodymArray

    w = E.w
    V = E.vals["x"].copy()
    row = E.vals["x"][0].copy()
    r1 = FlodymArray.full_like(E.x, V)
    r2 = FlodymArray.full_like(E.x, row)
    w.ob("full_like:fill_array_not_adopted", r1.values is not V and not np.shares_memory(r1.values, V))
    keep = V.copy()
    if r1.values.size:
        r1.values[...] = w.real("probe_into_full_like_result")
    for idx in np.ndindex(*V.shape):
        w.ob(f"full_like:fill_array_unchanged_by_writes_into_result{list(idx)}", w.same(V[idx], keep[idx]))
    r1.values[...] = keep
    return [r1, r2]


def _to_df_sparse_with_nan(E):
    """exports of an array holding a NaN entry (an empty cell of the source data) leave that array as it is"""
    from flodym import FlodymArray

    w = E.w
    V = E.vals["x"].copy()
    V[0, 1] = w.with_nan(V[0, 1], w.boolean("x01_is_nan", default=True))
    xn = FlodymArray(dims=E.ds("ab"), values=V.copy(), name="xn")
    for kw in (dict(sparse=True), dict(sparse=True, index=False), dict(), dict(dim_to_columns="Beta")):
        xn.to_df(**kw)
        for idx in np.ndindex(*V.shape):
            w.ob(f"export{sorted(kw.items())}:source_unchanged{list(idx)}", w.same(xn.values[idx], V[idx]))
    return []


def _from_df_frame(E):
    """from_df / set_values_from_df must not write into the caller's DataFrame"""
    import pandas as pd
    from flodym import FlodymArray, Dimension, DimensionSet

    single = Dimension(name="Scenario", letter="s", items=["only"])
    ds = DimensionSet(dim_list=[E.D["a"], single, E.D["b"]])
    frames = []
    df1 = E.x.to_df(index=False)  # default RangeIndex, full names, long format, the one-item dimension left out
    frames.append((df1, ds))
    df2 = E.tx.to_df(index=False)
    df2["Time"] = df2["Time"].astype(str)  # a typed dimension whose column holds another type
    frames.append((df2, E.tx.dims))
    out = []
    for df, d in frames:
        before = df.copy(deep=True)
        out.append(FlodymArray.from_df(dims=d, df=df))
        t = FlodymArray(dims=d)
        t.set_values_from_df(df)
        same = list(df.columns) == list(before.columns) and len(df) == len(before) and all(
            (df[c].tolist() == before[c].tolist()) or all(a is b or a == b for a, b in zip(df[c].tolist(), before[c].tolist())) for c in before.columns) and df.dtypes.astype(str).tolist() == before.dtypes.astype(str).tolist()
        E.w.ob(f"caller_frame_unchanged[{len(out)}]", bool(same), info=f"columns {list(df.columns)} dtypes {df.dtypes.astype(str).tolist()}")
    return out


def _plain_after_inplace(E):
    """non-in-place abs / sign / apply / cumsum after in-place calls on *another* array: results must be what they
    say, independent of each other and of the array that was edited in place earlier"""
    w = E.w
    tmp = E.x.copy()
    tmp.abs(inplace=True)
    tmp.sign(inplace=True)
    tmp.apply(np.negative, inplace=True)
    tmp.cumsum("a", inplace=True)
    snap = tmp.values.copy()
    X = E.vals["x"]
    r1 = E.x.abs()
    r2 = E.x.sign()
    r3 = E.x.apply(np.negative)
    r4 = E.z.abs()
    for idx in np.ndindex(*np.shape(X)):
        w.ob_eq(f"abs_after_inplace{list(idx)}", r1.values[idx], w.abs(X[idx]))
        w.ob_eq(f"negative_after_inplace{list(idx)}", r3.values[idx], -X[idx])
        w.ob(f"array_edited_in_place_earlier_untouched{list(idx)}", w.same(tmp.values[idx], snap[idx]))
    return [r1, r2, r3, r4]


def _setitem_rhs(E):
    from flodym import FlodymArray

    t = FlodymArray(dims=E.ds("ab"))
    t[...] = E.x
    t[{"a": "a1"}] = E.z
    t2 = FlodymArray(dims=E.ds("ab"))
    t2[...] = E.x.values
    # list keys: all items of a dimension in another order, some of them; the right-hand side in the target's order and not
    t3 = FlodymArray(dims=E.ds("ab"))
    t3[{"a": ["a2", "a1"]}] = E.x
    t3[{"b": ["b2", "b1"]}] = E.z
    t3[{"a": ["a2"], "b": ["b2", "b1"]}] = E.z
    t4 = FlodymArray(dims=E.ds("bc"))
    t4[{"c": ["c3", "c1"]}] = E.y
    t4[{"c": ["c3", "c1", "c2"], "b": ["b2", "b1"]}] = E.y
    return [t, t2, t3, t4]


def system_ops():
    """building stocks, lifetime models and systems from existing arrays; export"""
    S = {}

    def stock_from_arrays(E):
        from flodym.stocks import SimpleFlowDrivenStock, InflowDrivenDSM, StockDrivenDSM
        from flodym.lifetime_models import NormalLifetime, FixedLifetime

        d = E.tx.dims
        st = SimpleFlowDrivenStock(dims=d, inflow=E.tx, outflow=E.ty)
        st.compute()
        lt = FixedLifetime(dims=d, mean=E.prm)
        dsm_ = InflowDrivenDSM(dims=d, inflow=E.tx, lifetime_model=lt)
        dsm_.compute()
        sd = StockDrivenDSM(dims=d, stock=E.ty, lifetime_model=FixedLifetime(dims=d, mean=5.5))
        return [st.stock, dsm_.stock, dsm_.outflow, sd.inflow]

    def system_and_export(E):
        from flodym import MFASystem, Flow, Process, Parameter
        from flodym.export.data_writer import convert_to_dict

        procs = {"sysenv": Process(name="sysenv", id=0), "use": Process(name="use", id=1)}
        f1 = Flow(dims=E.x.dims, values=E.x.values.copy(), from_process=procs["sysenv"], to_process=procs["use"], name="sysenv => use")
        mfa = MFASystem(dims=E.full, parameters={"prm": E.prm}, processes=procs, flows={"sysenv => use": f1}, stocks={})
        d1 = convert_to_dict(mfa, "numpy")
        d2 = convert_to_dict(mfa, "pandas")
        new = mfa.get_new_array(("a", "b"))
        E.arrays["flow_in_system"] = f1
        return [new]

    def to_stock_type(E):
        """a flow-driven stock converted to a dynamic model: same arrays, same dimensions, and what it then computes is what
        a freshly built model computes from the same inflow"""
        from flodym.stocks import SimpleFlowDrivenStock, InflowDrivenDSM
        from flodym.lifetime_models import FixedLifetime

        w = E.w
        d = E.tx.dims
        st = SimpleFlowDrivenStock(dims=d, inflow=E.tx.copy(), outflow=E.ty.copy(), name="conv")
        st.compute()
        before = {k: getattr(st, k).values.copy() for k in ("stock", "inflow", "outflow")}
        new = st.to_stock_type(InflowDrivenDSM, lifetime_model=FixedLifetime(dims=d, mean=E.prm))
        w.ob("to_stock_type:class", type(new) is InflowDrivenDSM and new.name == "conv" and tuple(new.dims.letters) == tuple(d.letters))
        for k in before:
            for idx in np.ndindex(*before[k].shape):
                w.ob(f"to_stock_type:{k}_kept{list(idx)}", w.same(getattr(new, k).values[idx], before[k][idx]))
                w.ob(f"to_stock_type:source_{k}_unchanged{list(idx)}", w.same(getattr(st, k).values[idx], before[k][idx]))
        new.compute()
        fresh = InflowDrivenDSM(dims=d, inflow=E.tx.copy(), lifetime_model=FixedLifetime(dims=d, mean=E.prm))
        fresh.compute()
        for k in ("stock", "outflow"):
            for idx in np.ndindex(*before[k].shape):
                w.ob_eq(f"to_stock_type:computes_like_fresh:{k}{list(idx)}", getattr(new, k).values[idx], getattr(fresh, k).values[idx])
        return [new.stock, new.outflow]

    def sankey_plot(E):
        """plotting a system (flows coloured by one of their dimensions, negative entries allowed) leaves its flows alone"""
        from flodym import MFASystem, Flow, Process
        from flodym.export.sankey import PlotlySankeyPlotter

        w = E.w
        procs = {"sysenv": Process(name="sysenv", id=0), "use": Process(name="use", id=1), "waste": Process(name="waste", id=2)}
        V1, V2 = w.arr("sk1", (2,)), w.arr("sk2", (2, 2))
        f1 = Flow(dims=E.ds("a"), values=V1.copy(), from_process=procs["sysenv"], to_process=procs["use"], name="sysenv => use")
        f2 = Flow(dims=E.ds("ab"), values=V2.copy(), from_process=procs["use"], to_process=procs["waste"], name="use => waste")
        mfa = MFASystem(dims=E.full, parameters={}, processes=procs, flows={f1.name: f1, f2.name: f2}, stocks={})
        for colors, sl in (({"default": "grey", f1.name: ("a", ["red", "blue"]), f2.name: ("Beta", ["red", "blue"])}, {}),
                           ({"default": "grey", f1.name: ("Alpha", ["red", "blue"])}, {"b": "b1"}), ({"default": "grey"}, {"a": "a2"})):
            try:
                PlotlySankeyPlotter(mfa=mfa, slice_dict=sl, flow_color_dict=colors, exclude_processes=[]).plot()
            except Exception as e:
                w.ob("sankey_plot_does_not_raise", False, info=f"{type(e).__name__}: {str(e)[:150]}")
            for f_, V in ((f1, V1), (f2, V2)):
                for idx in np.ndindex(*V.shape):
                    w.ob(f"sankey:{f_.name}:unchanged{list(idx)}:colors={sorted(colors)}", w.same(mfa.flows[f_.name].values[idx], V[idx]))
        return []

    def array_plots(E):
        """line / scatter / area charts of an array (with and without a subplot dimension) leave it alone"""
        from flodym.export.array_plotter import PlotlyArrayPlotter
        from matplotlib import pyplot as plt

        for cls in (PlotlyArrayPlotter,):  # (matplotlib converts what it is handed to float: the pyplot back end is C20's, at its recorder)
            for chart in ("line", "area", "scatter"):
                cls(array=E.x, intra_line_dim="Alpha", linecolor_dim="Beta", chart_type=chart).plot()
                cls(array=E.y, intra_line_dim="c", linecolor_dim="b", chart_type=chart).plot()
                cls(array=E.tx, intra_line_dim="t", subplot_dim="a", chart_type=chart).plot()
        plt.close("all")
        return []

    S["array_plots"] = (array_plots, False)
    S["sankey_plot"] = (sankey_plot, False)
    S["stock_from_arrays"] = (stock_from_arrays, False)
    S["to_stock_type"] = (to_stock_type, False)
    S["system_and_export"] = (system_and_export, False)
    return S


def bad_calls():
    """deliberately ill-formed calls: each must raise, and leave every array involved exactly as it was"""
    from flodym import FlodymArray, Dimension, DimensionSet, StockArray, Parameter, Flow, Process

    B = {}
    B["ctor_transposed_shape"] = lambda E: FlodymArray(dims=E.y.dims, values=np.transpose(E.y.values))
    B["ctor_broadcastable_shape"] = lambda E: FlodymArray(dims=E.x.dims, values=E.x.values[:1])
    B["ctor_wrong_rank"] = lambda E: FlodymArray(dims=E.x.dims, values=E.x.values[0])
    B["ctor_number_for_nonscalar"] = lambda E: FlodymArray(dims=E.x.dims, values=1.0)
    B["ctor_duplicate_letters"] = lambda E: DimensionSet(dim_list=[E.D["a"], Dimension(name="Alpha2", letter="a", items=["q"])])
    B["set_values_transposed"] = lambda E: E.y.set_values(np.transpose(E.y.values).copy())
    B["set_values_broadcastable"] = lambda E: E.x.set_values(E.x.values[:1].copy())
    B["set_values_flodym_array"] = lambda E: E.x.set_values(E.z)
    B["setitem_whole_wrong_shape"] = lambda E: E.y.__setitem__(Ellipsis, np.transpose(E.y.values).copy())
    B["setitem_whole_missing_dim"] = lambda E: E.x.__setitem__(Ellipsis, E.prm)
    B["setitem_key_missing_dim"] = lambda E: E.y.__setitem__({"b": "b1"}, E.prm)
    B["setitem_unknown_item"] = lambda E: E.x.__setitem__({"a": "nope"}, 1.0)
    B["getitem_unknown_item"] = lambda E: E.x["nope"]
    B["getitem_unknown_letter"] = lambda E: E.x[{"q": "a1"}]
    B["getitem_slice"] = lambda E: E.x[0:1]
    B["getitem_non_subset"] = lambda E: E.x[{"a": Dimension(name="NotSub", letter="u", items=["a1", "zz"])}]
    B["cast_to_missing_dim"] = lambda E: E.x.cast_to(E.ds("a"))
    B["sum_to_unknown"] = lambda E: E.x.sum_to(("q",))
    B["sum_over_unknown"] = lambda E: E.x.sum_over(("Nope",))
    B["pow_foreign_dim"] = lambda E: E.x ** E.y
    B["shares_unknown"] = lambda E: E.x.get_shares_over(("c",))
    B["from_df_missing_rows"] = lambda E: FlodymArray.from_df(dims=E.x.dims, df=E.x.to_df().iloc[:-1])
    B["set_values_from_df_missing_rows"] = lambda E: E.x.set_values_from_df(E.x.to_df().iloc[1:])
    B["set_values_from_df_foreign_items"] = lambda E: E.x.set_values_from_df(E.z.to_df().rename(index={"a1": "zz"}))
    B["cumsum_unknown_letter"] = lambda E: E.x.cumsum("q")
    B["cumsum_unknown_letter_inplace"] = lambda E: E.x.cumsum("q", inplace=True)
    B["cumsum_unknown_name_inplace"] = lambda E: E.y.cumsum("Nope", inplace=True)
    def _other(E, items):
        return FlodymArray(dims=DimensionSet(dim_list=[Dimension(name="Alpha", letter="a", items=items), E.D["b"]]), values=np.full((len(items), 2), 1.5))

    for opn, op in (("add", lambda u, v: u + v), ("sub", lambda u, v: u - v), ("mul", lambda u, v: u * v), ("div", lambda u, v: u / v), ("min", lambda u, v: u.minimum(v)), ("max", lambda u, v: u.maximum(v))):
        B[f"{opn}_same_letter_one_item_on_the_left"] = (lambda E, op=op: op(_other(E, ["a1"]), E.x))
        # (a one-item dimension on the *right* is broadcast by numpy into a result with the left operand's dims: the shape
        #  invariant holds and nothing has to raise, so that case is not among the ill-formed calls)
        B[f"{opn}_same_letter_other_length"] = (lambda E, op=op: op(E.x, _other(E, ["a1", "a2", "a3"])))
    # the same dimension requested twice (by letter twice, by letter and by name): no array over repeated letters may come out
    B["from_dims_superset_repeated_letter"] = lambda E: FlodymArray.from_dims_superset(E.full, ("a", "a"))
    B["from_dims_superset_letter_and_name"] = lambda E: Parameter.from_dims_superset(E.full, ("a", "b", "Alpha"))
    B["array_over_subset_with_repeated_letter"] = lambda E: FlodymArray(dims=E.full["a", "b", "a"])
    B["flow_over_subset_with_repeated_letter"] = lambda E: Flow(dims=E.full.get_subset(("t", "Time")), from_process=Process(name="sysenv", id=0), to_process=Process(name="use", id=1))
    # a zero-dimensional array takes a number or a 0-d ndarray, nothing with entries along an axis
    B["zero_dim_set_values_vector"] = lambda E: E.s.set_values(np.array([1.0, 2.0, 3.0]))
    B["zero_dim_setitem_matrix"] = lambda E: E.s.__setitem__(Ellipsis, np.ones((2, 2)))
    B["zero_dim_ctor_vector"] = lambda E: FlodymArray(dims=E.s.dims, values=np.ones(3))
    B["zero_dim_ctor_one_entry_vector"] = lambda E: FlodymArray(dims=DimensionSet(dim_list=[]), values=np.ones((1,)))
    B["zero_dim_result_set_values_vector"] = lambda E: E.x.sum_to(()).set_values(E.x.values[0].copy())
    B["set_values_zero_dim_ndarray"] = lambda E: E.x.set_values(np.asarray(E.x.values[0, 0]).reshape(()))
    B["setitem_whole_zero_dim_ndarray"] = lambda E: E.x.__setitem__(Ellipsis, E.x.sum_to(()).values)
    B["ctor_zero_dim_ndarray_for_1d"] = lambda E: FlodymArray(dims=E.prm.dims, values=np.asarray(E.prm.values[0]).reshape(()))
    return B


def bad_stock_calls():
    from flodym import StockArray, Dimension, DimensionSet
    from flodym.stocks import SimpleFlowDrivenStock, InflowDrivenDSM, StockDrivenDSM
    from flodym.lifetime_models import NormalLifetime, FixedLifetime

    def other_time(E, items):
        return DimensionSet(dim_list=[Dimension(name="Time", letter="t", items=items, dtype=int), E.D["a"]])

    B = {}
    B["stock_array_other_letters"] = lambda E: SimpleFlowDrivenStock(dims=E.tx.dims, inflow=StockArray(dims=E.ds("tb")))
    B["stock_array_other_order"] = lambda E: SimpleFlowDrivenStock(dims=E.tx.dims, inflow=StockArray(dims=E.ds("at")))
    B["stock_time_not_first"] = lambda E: SimpleFlowDrivenStock(dims=E.ds("at"))
    B["stock_array_other_length"] = lambda E: SimpleFlowDrivenStock(dims=E.tx.dims, inflow=StockArray(dims=other_time(E, [2000, 2001])))
    B["stock_array_other_items"] = lambda E: SimpleFlowDrivenStock(dims=E.tx.dims, outflow=StockArray(dims=other_time(E, [1990, 1991, 1993])))
    B["stock_array_prefix_dims"] = lambda E: SimpleFlowDrivenStock(dims=E.tx.dims, inflow=StockArray(dims=E.ds("t")))
    B["stock_array_extended_dims"] = lambda E: SimpleFlowDrivenStock(dims=E.tx.dims, outflow=StockArray(dims=E.ds("tab")))
    # all three arrays given, all over the same foreign dimension order: agreeing with each other is not agreeing with the stock
    B["stock_all_three_arrays_other_order"] = lambda E: SimpleFlowDrivenStock(dims=E.tx.dims, stock=StockArray(dims=E.ds("at")), inflow=StockArray(dims=E.ds("at")), outflow=StockArray(dims=E.ds("at")))
    B["stock_all_three_arrays_other_letters"] = lambda E: SimpleFlowDrivenStock(dims=E.tx.dims, stock=StockArray(dims=E.ds("tb")), inflow=StockArray(dims=E.ds("tb")), outflow=StockArray(dims=E.ds("tb")))
    B["dsm_all_three_arrays_other_order"] = lambda E: InflowDrivenDSM(dims=E.tx.dims, lifetime_model=FixedLifetime, stock=StockArray(dims=E.ds("at")), inflow=StockArray(dims=E.ds("at")), outflow=StockArray(dims=E.ds("at")))
    B["dsm_time_not_first_lifetime_class"] = lambda E: InflowDrivenDSM(dims=E.ds("at"), lifetime_model=FixedLifetime)
    B["dsm_time_not_first_lifetime_instance"] = lambda E: InflowDrivenDSM(dims=E.ds("at"), lifetime_model=FixedLifetime(dims=E.ds("at"), mean=2.0))
    B["sdsm_time_not_first"] = lambda E: StockDrivenDSM(dims=E.ds("at"), lifetime_model=NormalLifetime, stock=StockArray(dims=E.ds("at")))
    B["dsm_lifetime_prefix_dims"] = lambda E: InflowDrivenDSM(dims=E.tx.dims, lifetime_model=FixedLifetime(dims=E.ds("t"), mean=2.0))
    B["dsm_lifetime_extended_dims"] = lambda E: StockDrivenDSM(dims=E.tx.dims, lifetime_model=FixedLifetime(dims=E.ds("tab"), mean=2.0))
    B["stock_array_same_items_other_order"] = lambda E: SimpleFlowDrivenStock(dims=E.tx.dims, inflow=StockArray(dims=DimensionSet(dim_list=[E.D["t"], Dimension(name="Alpha", letter="a", items=["a2", "a1"])])))
    B["stock_array_repeated_item"] = lambda E: SimpleFlowDrivenStock(dims=E.tx.dims, inflow=StockArray(dims=DimensionSet(dim_list=[E.D["t"], Dimension(name="Alpha", letter="a", items=["a1", "a2", "a2"])])))
    B["dsm_lifetime_same_items_other_order"] = lambda E: InflowDrivenDSM(dims=E.tx.dims, lifetime_model=FixedLifetime(dims=DimensionSet(dim_list=[E.D["t"], Dimension(name="Alpha", letter="a", items=["a2", "a1"])]), mean=2.0))
    B["dsm_lifetime_other_letters"] = lambda E: InflowDrivenDSM(dims=E.tx.dims, lifetime_model=FixedLifetime(dims=E.ds("tb"), mean=2.0))
    B["dsm_lifetime_other_length"] = lambda E: InflowDrivenDSM(dims=E.tx.dims, lifetime_model=FixedLifetime(dims=other_time(E, [2000, 2001]), mean=2.0))
    B["dsm_lifetime_not_a_model"] = lambda E: InflowDrivenDSM(dims=E.tx.dims, lifetime_model=int)
    B["dsm_unknown_solver"] = lambda E: StockDrivenDSM(dims=E.tx.dims, lifetime_model=FixedLifetime, solver="cholesky")
    B["lifetime_time_letter_missing"] = lambda E: FixedLifetime(dims=E.ds("ab"), mean=2.0)
    B["lifetime_prm_foreign_dim"] = lambda E: FixedLifetime(dims=E.tx.dims, mean=E.y)
    B["lifetime_prm_same_letters_other_length"] = lambda E: FixedLifetime(dims=E.tx.dims, mean=StockArray(dims=other_time(E, [2000, 2001]), values=np.full((2, 2), 2.5)))
    B["lifetime_prm_same_letters_other_items"] = lambda E: NormalLifetime(dims=E.tx.dims, mean=2.0, std=StockArray(dims=DimensionSet(dim_list=[E.D["t"], Dimension(name="Alpha", letter="a", items=["a1"])]), values=np.full((3, 1), 0.5)))
    B["set_prms_same_letters_other_length"] = lambda E: FixedLifetime(dims=E.tx.dims, mean=2.0).set_prms(mean=StockArray(dims=other_time(E, [2000, 2001]), values=np.full((2, 2), 2.5)))
    # items that only coincide with the stock's after a conversion to the declared item type: text years, mid-year points
    def cast_alike(E, items):
        return DimensionSet(dim_list=[Dimension(name="Time", letter="t", items=items), E.D["a"]])

    B["stock_array_items_equal_as_text"] = lambda E: SimpleFlowDrivenStock(dims=E.tx.dims, inflow=StockArray(dims=cast_alike(E, ["2000", "2001", "2003"])))
    B["stock_array_items_equal_after_truncation"] = lambda E: SimpleFlowDrivenStock(dims=E.tx.dims, outflow=StockArray(dims=cast_alike(E, [2000.5, 2001.5, 2003.5])))
    B["dsm_lifetime_items_equal_after_truncation"] = lambda E: InflowDrivenDSM(dims=E.tx.dims, lifetime_model=FixedLifetime(dims=cast_alike(E, [2000.5, 2001.5, 2003.5]), mean=2.0))
    B["lifetime_bad_inflow_at"] = lambda E: NormalLifetime(dims=E.tx.dims, inflow_at="centre", mean=2.0, std=1.0)
    return B

"""C07 -- summing, casting and shares conserve totals and act by label."""
from __future__ import annotations

import itertools

import numpy as np

from svx.configs import ordered_subsets, subsets, length_patterns, make_dimset, make_dim, label_tuples, at, lens_key, NAMES

PROPERTY = "C07"
FUNCTIONS = ["FlodymArray.sum_to", "FlodymArray.sum_over", "FlodymArray.sum_values_over", "FlodymArray.sum_values_to",
             "FlodymArray._tuple_to_letters", "FlodymArray._get_dim_letter", "FlodymArray.cast_values_to", "FlodymArray.cast_to",
             "FlodymArray.get_shares_over", "FlodymArray.cumsum"]
ASSUMPTIONS = ["shares: the total over the given dimensions is non-zero (the property's own guard)"]
OUTSIDE = ["more than 4 dimensions", "lengths above 3", "IEEE rounding"]
VARIANTS = 'DimensionSet arguments (own and foreign); shares after an in-place write; foreign Dimension objects; cumsum over numeric items out of order'
BOUNDS = {
    "quick": dict(universe="abc", lengths=[1, 2, 3], array_dims="every ordered subset", kept_summed_added="every subset in every order",
                  naming="letters, names, Dimension objects, mixed"),
    "thorough": dict(universe="abcd", lengths="{1,2,3} patterns with total size <= 36", array_dims="every ordered subset",
                     kept_summed_added="every subset in every order", naming="letters, names, Dimension objects, mixed"),
}
for _t in BOUNDS.values():
    _t["variants_beyond_the_base_enumeration"] = VARIANTS
# dtype shadow: every shadowed configuration is run once more on integer-dtype arrays (differential concrete run)
DTYPE_SHADOW = lambda cfg: cfg["h"] != "shares"
OPTS = {"quick": dict(shadow_every=50), "thorough": dict(shadow_every=300)}
STYLES = ["letters", "names", "objects", "mixed"]


def _lens_for(letters, tier):
    if tier == "quick":
        pats = list(length_patterns(letters, [1, 2, 3]))
        return [p for p in pats if int(np.prod(list(p.values()) or [1])) <= 12]
    pats = list(length_patterns(letters, [1, 2, 3]))
    # (4-d arrays: six fixed length assignments -- every multiset of lengths once or twice, a one-item dimension at either end
    #  and inside; all 29 assignments made the thorough tier run for more than an hour)
    four = ((2, 2, 2, 2), (1, 2, 3, 2), (2, 3, 2, 1), (3, 2, 1, 2), (2, 2, 3, 2), (3, 1, 2, 3))
    return [p for p in pats if int(np.prod(list(p.values()) or [1])) <= 36 and (len(letters) < 4 or tuple(p[l] for l in sorted(p)) in four)]


def configs(tier, seed):
    U = "abc" if tier == "quick" else "abcd"
    out = []
    for xd in ordered_subsets(U):
        for lens in _lens_for(sorted(xd), tier):
            lk = lens_key(lens)
            # sum_to: every ordered subset of x's dims, in 4 naming styles (+ one unknown-name case)
            for R in ordered_subsets(xd):
                for st in (STYLES if R else ["letters"]):
                    if tier == "quick" and len(xd) == 3 and st == "mixed" and len(R) < 2:
                        continue
                    out.append(dict(h="sum_to", op="sum_to", key=f"sum_to/x={xd or '-'}/R={R or '-'}/{st}/{lk}", xd=xd, lens=lens, R=R, style=st))
                if R:
                    # a DimensionSet as the argument: the array's own, and another set's dimensions with the same letters and
                    # lengths but other items (a parameter's dims): the result is over the array's own dimensions either way
                    for st in (("dimset", "foreign_dimset") if len(R) == len(xd) or tier != "quick" else ("foreign_dimset",)):
                        out.append(dict(h="sum_to", op="sum_to", key=f"sum_to/x={xd or '-'}/R={R or '-'}/{st}/{lk}", xd=xd, lens=lens, R=R, style=st))
            for S in ordered_subsets(xd):
                for st in (["letters", "names"] if S else ["letters"]):
                    out.append(dict(h="sum_over", op="sum_over", key=f"sum_over/x={xd or '-'}/S={S or '-'}/{st}/{lk}", xd=xd, lens=lens, S=S, style=st))
            for l in xd:
                out.append(dict(h="cumsum", op="cumsum", key=f"cumsum/x={xd}/{l}/{lk}", xd=xd, lens=lens, l=l))
                if lens[l] >= 2:
                    # numeric items that are not listed in ascending order (vintages new to old, scenario numbers): item ORDER counts
                    for tag, items in (("desc", [2020, 2010, 2000]), ("mixed", [2, 0.5, 1])):
                        out.append(dict(h="cumsum", op="cumsum_n", key=f"cumsum/x={xd}/{l}/{lk}/items={tag}", xd=xd, lens=lens, l=l, items=items[: lens[l]]))
            for D in ordered_subsets(xd, min_size=1):
                if int(np.prod([lens[l] for l in xd] or [1])) <= 12:
                    out.append(dict(h="shares", op="shares", key=f"shares/x={xd}/D={D}/{lk}", xd=xd, lens=lens, D=D))
                    if len(D) == len(xd) or len(D) == 1:
                        # the same after totals and shares were taken once and the values were then written in place
                        out.append(dict(h="shares", op="shares_w", key=f"shares/x={xd}/D={D}/{lk}/after_inplace_write", xd=xd, lens=lens, D=D, after_write=True))
            out.append(dict(h="unknown", op="unknown", key=f"unknown/x={xd or '-'}/{lk}", xd=xd, lens=lens))
        # cast_to: targets = every ordered subset of U (superset -> cast, else must raise)
        for td in ordered_subsets(U):
            used = sorted(set(xd) | set(td))
            pats = _lens_for(used, tier)
            if tier == "quick":
                pats = [p for p in pats if set(p.values()) <= {1, 2} or (len(used) <= 2)]
            for lens in pats:
                out.append(dict(h="cast", op="cast", key=f"cast/x={xd or '-'}/T={td or '-'}/{lens_key(lens)}", xd=xd, td=td, lens=lens))
    for order in ("ort", "rot", "tro", "otr"):
        out.append(dict(h="substring_names", op="subnames", key=f"substring_names/{order}", xd=order, lens=dict(o=2, r=3, t=2)))
    return out


def _named(style, letters, dims):
    if style in ("dimset", "foreign_dimset"):
        from flodym import DimensionSet, Dimension

        if style == "dimset":
            return DimensionSet(dim_list=[dims[l] for l in letters])
        return DimensionSet(dim_list=[Dimension(name=dims[l].name, letter=l, items=[f"other_{it}" for it in dims[l].items[::-1]]) for l in letters])
    out = []
    for i, l in enumerate(letters):
        s = style if style != "mixed" else ["letters", "names", "objects"][i % 3]
        out.append(l if s == "letters" else NAMES[l] if s == "names" else dims[l])
    return tuple(out)


def run(cfg, w):
    from flodym import FlodymArray

    lens = cfg["lens"]
    if cfg["h"] == "substring_names":
        return _substring_names(cfg, w)
    dims = {l: make_dim(l, n) for l, n in lens.items()}
    if cfg.get("items"):
        dims[cfg["l"]] = make_dim(cfg["l"], lens[cfg["l"]], items=list(cfg["items"]))
    xd = cfg["xd"]
    X = w.arr("x", tuple(lens[l] for l in xd))
    from svx.configs import relayout

    x = FlodymArray(dims=make_dimset(xd, lens, dims), values=relayout(X.copy(), sum(map(ord, cfg["key"])) % 3), name="xx")
    h = cfg["h"]

    def check_dims(res, letters):
        ok = tuple(res.dims.letters) == tuple(letters) and tuple(np.shape(res.values)) == tuple(lens[l] for l in letters)
        w.ob("dims", ok, info=f"letters {res.dims.letters} shape {np.shape(res.values)} want {tuple(letters)}")
        w.ob("items", all(res.dims[l].items == dims[l].items for l in letters if l in res.dims.letters))
        return ok

    def marginal(lab, keep):
        s = 0
        for rest in label_tuples([l for l in xd if l not in keep], lens):
            s = s + at(X, xd, {**lab, **rest})
        return s

    if h in ("sum_to", "sum_over"):
        if h == "sum_to":
            keep = list(cfg["R"])
            res = x.sum_to(_named(cfg["style"], keep, dims))
            vals2 = x.sum_values_to(_named(cfg["style"], keep, dims))
        else:
            keep = [l for l in xd if l not in cfg["S"]]
            res = x.sum_over(_named(cfg["style"], cfg["S"], dims))
            vals2 = x.sum_values_over(_named(cfg["style"], cfg["S"], dims))
        if not check_dims(res, keep):
            return
        w.ob("values_variant_shape", np.shape(vals2) == np.shape(res.values))
        tot = 0
        for lab in label_tuples(keep, lens):
            idx = tuple(lab[l] for l in keep)
            w.ob_eq(f"entry{list(idx)}", res.values[idx], marginal(lab, keep))
            if np.shape(vals2) == np.shape(res.values):
                w.ob_eq(f"valentry{list(idx)}", np.asarray(vals2)[idx], marginal(lab, keep))
            tot = tot + res.values[idx]
        w.ob_eq("grand_total", tot, marginal({}, []))
        w.ob_eq("sum_values", x.sum_values(), marginal({}, []))
        return
    if h == "cumsum":
        l = cfg["l"]
        res = x.cumsum(l)
        if not check_dims(res, list(xd)):
            return
        for lab in label_tuples(xd, lens):
            s = 0
            for j in range(lab[l] + 1):
                s = s + at(X, xd, {**lab, l: j})
            idx = tuple(lab[k] for k in xd)
            w.ob_eq(f"entry{list(idx)}", res.values[idx], s)
        # in-place variant
        x2 = FlodymArray(dims=make_dimset(xd, lens, dims), values=X.copy())
        r = x2.cumsum(l, inplace=True)
        w.ob("inplace_returns_none", r is None)
        w.ob_arr_eq("inplace", x2.values, res.values)
        return
    if h == "shares":
        D = list(cfg["D"])
        if cfg.get("after_write"):
            x.sum_values(), x.get_shares_over(tuple(D)), x.get_shares_over(tuple(xd)), x.sum_to(())
            X = w.arr("x_new", tuple(lens[l] for l in xd))
            x.values[...] = X  # the documented way of filling an array: through its values buffer
            w.ob_eq("sum_values_after_write", x.sum_values(), marginal({}, []))
        res = x.get_shares_over(tuple(D))
        if not check_dims(res, list(xd)):
            return
        keep = [l for l in xd if l not in D]
        for lab in label_tuples(keep, lens):
            total = marginal(lab, keep)
            s = 0
            for rest in label_tuples([l for l in xd if l in D], lens):
                full = {**lab, **rest}
                idx = tuple(full[k] for k in xd)
                sh = res.values[idx]
                s = s + sh
                w.ob(f"times_total{list(idx)}", w.implies(w.ne(total, 0), w.eq(sh * total, X[idx])))
            w.ob(f"sum_to_one{[lab[k] for k in keep]}", w.implies(w.ne(total, 0), w.eq(s, 1)))
        return
    if h == "unknown":
        for what, call in [("sum_to", lambda: x.sum_to(("z",))), ("sum_over", lambda: x.sum_over(("Zeta",))),
                           ("sum_to_foreign", lambda: x.sum_to(("q",) + tuple(xd))),
                           ("shares", lambda: x.get_shares_over(("z",))),
                           # the same through Dimension objects (a foreign one alone, next to known ones, another array's dims)
                           ("sum_over_object", lambda: x.sum_over((_foreign(),))), ("sum_to_object", lambda: x.sum_to((_foreign(),))),
                           ("sum_over_object_mixed", lambda: x.sum_over(tuple(xd[:1]) + (_foreign(),))),
                           ("sum_over_other_dims", lambda: x.sum_over(_foreign().as_dimset())),
                           ("shares_object", lambda: x.get_shares_over((_foreign(),)))]:
            try:
                call()
                w.ob(f"{what}_unknown_dim_rejected", False, info="unknown dimension accepted")
            except Exception:
                w.ob(f"{what}_unknown_dim_rejected", True)
        w.ob_arr_eq("x_unchanged", x.values, X)
        return
    if h == "cast":
        td = cfg["td"]
        tds = make_dimset(td, lens, dims)
        ok_expected = all(l in td for l in xd)
        try:
            res = x.cast_to(tds)
        except Exception as e:
            w.ob("cast_raises_only_when_target_lacks_a_dim", not ok_expected, info=f"{type(e).__name__}: {e}")
            return
        if not ok_expected:
            w.ob("cast_must_refuse_target_lacking_source_dim", False)
            return
        if not check_dims(res, list(td)):
            return
        w.ob("name_kept", res.name == "xx")
        for lab in label_tuples(td, lens):
            idx = tuple(lab[k] for k in td)
            w.ob_eq(f"entry{list(idx)}", res.values[idx], at(X, xd, lab))
        back = res.sum_to(tuple(xd))
        mult = int(np.prod([lens[l] for l in td if l not in xd] or [1]))
        for lab in label_tuples(xd, lens):
            idx = tuple(lab[k] for k in xd)
            w.ob_eq(f"sum_back{list(idx)}", back.values[idx], X[idx] * mult)
        return
    raise RuntimeError(h)


def _foreign():
    from flodym import Dimension

    return Dimension(name="Zeta", letter="z", items=["z1", "z2"])


def _substring_names(cfg, w):
    """dimension names that contain one another ('Region' / 'Origin region'): names resolve exactly"""
    from flodym import FlodymArray, Dimension, DimensionSet

    D = {"o": Dimension(name="Origin region", letter="o", items=["o1", "o2"]), "r": Dimension(name="Region", letter="r", items=["r1", "r2", "r3"]),
         "t": Dimension(name="Time", letter="t", items=["t1", "t2"])}
    xd, lens = cfg["xd"], cfg["lens"]
    X = w.arr("x", tuple(lens[l] for l in xd))
    x = FlodymArray(dims=DimensionSet(dim_list=[D[l] for l in xd]), values=X.copy())

    def marg(keep):
        out = {}
        for lab in label_tuples(keep, lens):
            s_ = 0
            for rest in label_tuples([l for l in xd if l not in keep], lens):
                s_ = s_ + at(X, xd, {**lab, **rest})
            out[tuple(lab[l] for l in keep)] = s_
        return out

    for name, letter in (("Region", "r"), ("Origin region", "o"), ("Time", "t")):
        res = x.sum_over((name,))
        keep = [l for l in xd if l != letter]
        w.ob(f"sum_over[{name}]:dims", tuple(res.dims.letters) == tuple(keep), info=str(res.dims.letters))
        if tuple(res.dims.letters) == tuple(keep):
            for lab, v in marg(keep).items():
                w.ob_eq(f"sum_over[{name}]{list(lab)}", res.values[lab], v)
        res = x.sum_to((name,))
        w.ob(f"sum_to[{name}]:dims", tuple(res.dims.letters) == (letter,))
        if tuple(res.dims.letters) == (letter,):
            for lab, v in marg([letter]).items():
                w.ob_eq(f"sum_to[{name}]{list(lab)}", res.values[lab], v)
    for bad in ("Regio", "region", "Origin", "egion", "i", "g", "Tim"):
        for call in (lambda: x.sum_over((bad,)), lambda: x.sum_to((bad,))):
            try:
                call()
                w.ob(f"unknown_name_rejected[{bad}]", False, info="accepted")
            except Exception:
                w.ob(f"unknown_name_rejected[{bad}]", True)

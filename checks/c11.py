"""C11 -- DataFrame import is faithful to labels under every supported layout."""
from __future__ import annotations

import itertools

import numpy as np

from checks.frames import DIMSETS, build_dims, numeric_items, layouts, layout_key, make_frame

PROPERTY = "C11"
FUNCTIONS = ["FlodymArray.to_df", "FlodymArray.from_df", "FlodymArray.set_values_from_df", "DataFrameToFlodymDataConverter.get_target_values",
             "DataFrameToFlodymDataConverter._reset_non_default_index", "DataFrameToFlodymDataConverter._get_dim_columns_by_name_or_letter",
             "DataFrameToFlodymDataConverter._check_for_dim_columns_by_items", "DataFrameToFlodymDataConverter._check_value_columns",
             "DataFrameToFlodymDataConverter._df_to_long_format", "DataFrameToFlodymDataConverter._check_missing_dim_columns",
             "DataFrameToFlodymDataConverter._convert_type", "DataFrameToFlodymDataConverter._sort_columns", "DataFrameToFlodymDataConverter._check_data_complete",
             "DataFrameToFlodymDataConverter.same_items"]
ASSUMPTIONS = ["frames with more than 4 cells: cell values pairwise different (pandas' hash tables compare colliding cells with ==; each such comparison is a fork otherwise)",
               "int()/hash() of a symbolic cell are case splits over the numeric dimension items of the configuration",
               "frames with more than 4 cells: no cell value truncates to a numeric dimension item (confusion paths are explored on the small frames)"]
OUTSIDE = ["CSV / Excel text round trips (compiled formatting and parsing concretise)", "more than 4 dimensions", "row/column permutations beyond reverse and rotation for frames with more than 4 rows",
           "items-only layouts whose value column precedes an unnamed dimension column (flodym stops scanning at the first non-dimension column: listed as known finding)"]
VARIANTS = 'headerless frames (a data row as column names); permuted rows keeping or repeating integer row labels; nested item sets; an array of 182 x 182 entries; a NaN entry in exports; infinite entries in name- and letter-headed round trips (float64 run)'
BOUNDS = {"quick": dict(dimsets=sorted(k for k in DIMSETS if k not in ("T3_r2_p2_e2", "r3_p2_e2")), layouts="index x dim_to_columns (name/letter) x header (names/letters/mixed/items) x value column name x single-item dims dropped x row reverse/rotate x column reverse",
                        sparse="arrays <= 4 cells"),
          "thorough": dict(dimsets=sorted(DIMSETS), layouts="as quick, all letter spellings of dim_to_columns, all row permutations for <= 4 rows", sparse="arrays <= 6 cells")}
for _t in BOUNDS.values():
    _t["variants_beyond_the_base_enumeration"] = VARIANTS
# exports of arrays holding a NaN entry are always run on float64 too (pandas treats float NaN specially, not symbolic NaN flags)
SHADOW_ALWAYS = lambda cfg: bool(cfg.get("nan_entry") or cfg.get("inf_entries"))
OPTS = {"quick": dict(shadow_every=25, max_paths=400, max_depth=600), "thorough": dict(shadow_every=100, max_paths=2000, max_depth=1500)}


def configs(tier, seed):
    out = []
    names = BOUNDS[tier]["dimsets"]
    for name in names:
        size = int(np.prod([len(s[2]) for s in DIMSETS[name]]))
        for li, L in enumerate(layouts(name, tier)):
            fo = bool(li % 2) and len(DIMSETS[name]) >= 2  # every other layout on a column-major values array
            out.append(dict(h="roundtrip", op=name, key=f"roundtrip/{name}/{layout_key(L)}" + ("/F" if fo else ""), ds=name, L=L, fortran=fo))
            if L["header"] in ("names", "letters") and L["rowperm"] == "id" and L["colperm"] == "id" and not L["drop_single"]:
                # the first entry +inf, the last -inf (float64 run of the same harness only: the exact-real model has no infinities)
                out.append(dict(h="roundtrip", op=name + "inf", key=f"roundtrip/{name}/{layout_key(L)}/infinite_values", ds=name, L=L, fortran=False, inf_entries=True))
        for index in (True, False):
            nd = len(DIMSETS[name])
            for d2c in [None] + list(range(nd)):
                for sparse in ((False, True) if size <= (4 if (tier == "quick" and name != "m3u_r2") else 6) else (False,)):
                    for fo in ((False, True) if nd >= 2 else (False,)):
                        out.append(dict(h="to_df", op=name, key=f"to_df/{name}/index={int(index)}/d2c={d2c}/sparse={int(sparse)}" + ("/F" if fo else ""), ds=name, index=index, d2c=d2c, sparse=sparse, fortran=fo))
                    if not sparse and nd >= 2:
                        # one entry is NaN (an empty cell of the source data, 0/0 shares): it is listed as NaN, not as a number
                        out.append(dict(h="to_df", op=name + "nan", key=f"to_df/{name}/index={int(index)}/d2c={d2c}/sparse=0/nan_entry", ds=name, index=index, d2c=d2c, sparse=False, fortran=False, nan_entry=True))
        if 2 <= size <= 6:
            for i in range(size):
                for j in range(size):
                    if i != j:
                        out.append(dict(h="mislabel", op=name, key=f"mislabel/{name}/row{i}_as_row{j}", ds=name, i=i, j=j))
        if 2 <= size <= 8 and len(DIMSETS[name]) <= 3:
            # a frame read without a header line: one data row ended up as the column names
            nd = len(DIMSETS[name])
            for colorder in itertools.permutations(range(nd)):
                for hrow in range(size):
                    for rest in ("id", "rev"):
                        out.append(dict(h="headerless", op=name, key=f"headerless/{name}/cols={''.join(map(str, colorder))}/header_row={hrow}/{rest}", ds=name,
                                        colorder=list(colorder), hrow=hrow, rest=rest))
        if size <= 4:
            for perm in itertools.permutations(range(size)):
                if perm == tuple(range(size)):
                    continue
                out.append(dict(h="rowperm", op=name, key=f"rowperm/{name}/{''.join(map(str, perm))}", ds=name, perm=list(perm)))
                out.append(dict(h="rowperm", op=name, key=f"rowperm/{name}/{''.join(map(str, perm))}/columns_keep_labels", ds=name, perm=list(perm), columns=True))
                # ... or with row labels that repeat, as two tables glued together with pd.concat have them
                out.append(dict(h="rowperm", op=name, key=f"rowperm/{name}/{''.join(map(str, perm))}/columns_repeated_labels", ds=name, perm=list(perm), columns=True, repeated=True))
    # sparse exports (zero entries left out; one item has zero entries only and does not occur in the rows at all), imported with
    # allow_missing_values: the left-out entries come back as zeros
    for name in ("T2_r2", "r2_p3u", "T3d_r2"):
        for header in ("names", "letters"):
            for index in (True, False):
                out.append(dict(h="sparse_roundtrip", op=name, key=f"sparse_roundtrip/{name}/index={int(index)}/{header}", ds=name, index=index, header=header))
                # ... and with the last dimension spread over the columns (a row of the wide table then holds empty cells next to filled ones)
                out.append(dict(h="sparse_roundtrip", op=name + "w", key=f"sparse_roundtrip/{name}/index={int(index)}/{header}/wide", ds=name, index=index, header=header, wide=True))
    for index in (True, False):
        for rows in ("id", "rev"):
            out.append(dict(h="large", op="large", key=f"large/182x182/index={int(index)}/rows={rows}", ds="r2", n=182, index=index, rows=rows))
    return out


def _large(cfg, w):
    """an array with more entries than a 16-bit position can count (182 x 182 = 33124 > 32767): concrete position-coded
    values with three symbolic cells (first, one beyond position 32767, last), exported and imported in long form"""
    from flodym import FlodymArray, Dimension, DimensionSet

    n = cfg["n"]
    dims = DimensionSet(dim_list=[Dimension(name="Origin", letter="o", items=[f"o{i:03d}" for i in range(n)]),
                                  Dimension(name="Destination", letter="d", items=[f"d{i:03d}" for i in range(n)])])
    V = np.arange(n * n, dtype=float).reshape(n, n) * 0.5 + 0.25
    cells = [(0, 0), (n - 2, n - 3), (n - 1, n - 1)]
    if w.sym:
        V = V.astype(object)
    sym_vals = {}
    for c in cells:
        sym_vals[c] = w.real(f"x_{c[0]}_{c[1]}", default=float(V[c]) + 1000.125)
        V[c] = sym_vals[c]
    if w.sym:
        from svx.sym import symarr

        V = symarr(V)
    x = FlodymArray(dims=dims, values=V.copy(), name="big")
    df = x.to_df(index=cfg["index"])
    if cfg["rows"] == "rev":
        df = df.iloc[::-1]
        if not cfg["index"]:
            df = df.reset_index(drop=True)
    y = FlodymArray.from_df(dims=DimensionSet(dim_list=list(dims.dim_list)), df=df)
    w.ob("shape", np.shape(y.values) == (n, n))
    if np.shape(y.values) != (n, n):
        return
    for c in cells:
        w.ob(f"symbolic_cell{list(c)}", w.same(y.values[c], sym_vals[c]))
    yv = np.asarray(y.values)
    bad = [(i, j) for i in range(n) for j in range(n) if (i, j) not in sym_vals and not (float(yv[i, j]) == float(V[i, j]))]
    w.ob("every_concrete_cell_under_its_labels", not bad, info=f"{len(bad)} cells differ, first {bad[:3]}")


def ctx_setup(cfg, c):
    c.cands = tuple(numeric_items(cfg["ds"]))


def _arr(w, name, no_confusion=False, fortran=False, nan_entry=False, inf_entries=False):
    from flodym import FlodymArray

    dims = build_dims(name)
    X = w.arr("x", dims.shape, default=lambda idx: (-1) ** sum(idx) * (10.375 + 1.25 * sum((k + 1) * 3 ** k * i for k, i in enumerate(idx))))
    if X.size > 4:
        w.assume_distinct(X)
    if X.size > 4 or no_confusion:
    # bigger frames: no cell truncates to a numeric dimension item (value/item confusion is explored
        # exhaustively on the frames with <= 4 cells; here it would multiply the paths by |items|^cells)
        for k in numeric_items(name):
            for v in X.flat:
                w.assume(w.or_(w.lt(v, k), w.ge(v, k + 1)) if k >= 0 else w.or_(w.le(v, k - 1), w.gt(v, k)))
    if inf_entries and not w.sym and X.size >= 2:
        X = X.copy()
        X.flat[0], X.flat[X.size - 1] = np.inf, -np.inf
    if nan_entry and X.size:
        last = tuple(k - 1 for k in X.shape)
        X[last] = w.with_nan(X[last], w.boolean("last_entry_is_nan", default=True))
    vals = X.copy()
    if fortran and vals.ndim >= 2:
        # same labels, column-major memory layout (what x.T, np.asfortranarray or a pure dimension reorder produce)
        vals = np.asfortranarray(vals).view(type(vals))
    return dims, X, FlodymArray(dims=dims, values=vals, name="param")


def _confusable(name):
    """some dimension has numeric items: a value can be mistaken for an item when the dimension is only given by its items"""
    return bool(numeric_items(name))


def run(cfg, w):
    import pandas as pd
    from flodym import FlodymArray

    if cfg["h"] == "large":
        return _large(cfg, w)
    name = cfg["ds"]
    spec = DIMSETS[name]
    h = cfg["h"]
    L = cfg.get("L")
    # a frame in which a numeric dimension is identified through its items only is ambiguous when values coincide
    # with those items (the property's own exception): such inputs are excluded there, and explored everywhere else
    ambiguous_layout = (h == "headerless" and _confusable(name)) or bool(L) and _confusable(name) and (L["header"] == "items" or (L["d2c"] is not None and any(isinstance(i, (int, float)) for i in spec[L["d2c"][1]][2]))
                                                                                                     # (a left-out single-item numeric dimension is looked for among the remaining columns by its item)
                                                                                                     or (L["drop_single"] and any(len(sp[2]) == 1 and isinstance(sp[2][0], (int, float)) for sp in spec)))
    dims, X, x = _arr(w, name, no_confusion=ambiguous_layout, fortran=bool(cfg.get("fortran")), nan_entry=bool(cfg.get("nan_entry")), inf_entries=bool(cfg.get("inf_entries")))
    if h == "to_df":
        d2c = None if cfg["d2c"] is None else spec[cfg["d2c"]][1]
        try:
            df = x.to_df(index=cfg["index"], dim_to_columns=d2c, sparse=cfg["sparse"])
        except Exception as e:
            w.ob("to_df_does_not_raise", False, info=f"{type(e).__name__}: {str(e)[:150]}")
            return
        long = df.reset_index() if cfg["index"] else df
        if d2c is not None:
            idcols = [s[1] for s in spec if s[1] != d2c]
            long = long.melt(id_vars=idcols, var_name=d2c, value_name="value")
        w.ob("columns", sorted(map(str, long.columns)) == sorted([s[1] for s in spec] + ["value"]), info=str(list(long.columns)))
        seen = {}
        for _i, row in long.iterrows():
            lab = tuple(row[s[1]] for s in spec)
            w.ob(f"label_listed_once{list(lab)}", lab not in seen)
            seen[lab] = row["value"]
        for idx in np.ndindex(*dims.shape):
            lab = tuple(s[2][i] for s, i in zip(spec, idx))
            if cfg["sparse"]:
                present = lab in seen
                w.ob(f"sparse_lists_exactly_nonzero{list(idx)}", w.iff(present, w.ne(X[idx], 0)) if d2c is None else (w.implies(w.ne(X[idx], 0), present)))
                if present and not (isinstance(seen[lab], float) and seen[lab] != seen[lab]):
                    w.ob(f"entry_under_true_labels{list(idx)}", w.same(seen[lab], X[idx]))
            else:
                w.ob(f"entry_listed{list(idx)}", lab in seen)
                if lab in seen:
                    w.ob(f"entry_under_true_labels{list(idx)}", w.same(seen[lab], X[idx]))
        w.ob("no_foreign_rows", all(all(l in s[2] for l, s in zip(lab, spec)) for lab in seen))
        w.ob_arr_eq("array_unchanged", x.values, X)
        return
    if h == "mislabel":
        # one row carries another row's labels: no unique row for that entry, none at all for the other one
        df = x.to_df(index=False)
        names = [sp[1] for sp in spec]
        for n in names:
            df.loc[cfg["i"], n] = df.loc[cfg["j"], n]
        for kw in (dict(), dict(allow_missing_values=True), dict(allow_extra_values=True)):
            try:
                FlodymArray.from_df(dims=build_dims(name), df=df.copy(), **kw)
                w.ob(f"doubled_labels_refused{sorted(kw)}", False, info="returned although two rows carry the same labels")
            except Exception:
                w.ob(f"doubled_labels_refused{sorted(kw)}", True)
        w.ob_arr_eq("array_unchanged", x.values, X)
        return
    if h == "headerless":
        df = x.to_df(index=False)
        names = [sp[1] for sp in spec]
        df = df[[names[i] for i in cfg["colorder"]] + ["value"]]
        header = list(df.iloc[cfg["hrow"]])
        if len({str(h_) for h_ in header[:-1]}) < len(header) - 1:
            # two dimensions carry the same label in this row: as column names they would collide (pandas' readers rename such
            # columns), so this row cannot have become the header of a frame flodym is handed
            w.ob("header_row_with_repeated_label_skipped", True)
            return
        body = df.drop(index=cfg["hrow"])
        if cfg["rest"] == "rev":
            body = body.iloc[::-1]
        body = body.reset_index(drop=True)
        body.columns = header
        try:
            y = FlodymArray.from_df(dims=build_dims(name), df=body)
        except Exception as e:
            w.ob("import_returns_for_headerless_frame", False, info=f"{type(e).__name__}: {str(e)[:200]}")
            return
        for idx in np.ndindex(*dims.shape):
            w.ob(f"entry{list(idx)}", w.same(y.values[idx], X[idx]))
        w.ob_arr_eq("array_unchanged", x.values, X)
        return
    if h == "sparse_roundtrip":
        # entries of the last item of the first dimension are all zero, one more entry elsewhere is zero
        zero = [idx for idx in np.ndindex(*dims.shape) if idx[0] == dims.shape[0] - 1] + [tuple(0 for _ in dims.shape)]
        if cfg.get("wide"):
            # (every item of the spread dimension keeps a non-zero entry: a wide frame that lost an item column altogether is
            #  ambiguous, C12 calls it unspecified)
            zero = [tuple(0 for _ in dims.shape)]
        for idx in np.ndindex(*dims.shape):
            if idx in zero:
                X[idx] = 0
                x.values[idx] = 0
            else:
                w.assume(w.ne(X[idx], 0))
        df = x.to_df(index=cfg["index"], sparse=True, dim_to_columns=(spec[-1][1] if cfg.get("wide") else None))
        n2l = {sp[1]: sp[0] for sp in spec}
        if cfg["header"] == "letters":
            df = df.rename_axis(index=lambda n: n2l.get(n, n)) if cfg["index"] else df.rename(columns=n2l)
        try:
            y = FlodymArray.from_df(dims=build_dims(name), df=df, allow_missing_values=True)
        except Exception as e:
            w.ob("sparse_export_imports_with_allow_missing_values", False, info=f"{type(e).__name__}: {str(e)[:200]}")
            return
        for idx in np.ndindex(*dims.shape):
            w.ob(f"entry{list(idx)}", w.same(y.values[idx], X[idx]) if idx not in zero else w.eq(y.values[idx], 0))
        return
    if h == "rowperm":
        # dims in the index, or dims in columns with the rows re-ordered the usual pandas way (old integer labels kept)
        df = x.to_df(index=not cfg.get("columns")).iloc[cfg["perm"]]
        if cfg.get("repeated"):
            half = (len(df) + 1) // 2
            df.index = list(range(half)) + list(range(len(df) - half))
        y = FlodymArray.from_df(dims=build_dims(name), df=df)
        for idx in np.ndindex(*dims.shape):
            w.ob(f"entry{list(idx)}", w.same(y.values[idx], X[idx]))
        return
    L = cfg["L"]
    try:
        df = make_frame(x, name, L)
    except Exception as e:
        w.ob("to_df_does_not_raise", False, info=f"{type(e).__name__}: {str(e)[:150]}")
        return
    # liveness only where no value can be mistaken for an item: every dimension with numeric items is identified by
    # name or letter (a dimension spread over the columns is identified through its items only)
    must_return = True  # (ambiguous inputs are excluded by assumption above)
    try:
        y = FlodymArray.from_df(dims=build_dims(name), df=df)
    except Exception as e:
        w.ob("import_returns_for_identified_layout", not must_return, info=f"{type(e).__name__}: {str(e)[:200]}")
        w.ob_arr_eq("array_unchanged", x.values, X)
        return
    w.ob("dims", tuple(y.dims.letters) == tuple(s[0] for s in spec) and np.shape(y.values) == dims.shape)
    if np.shape(y.values) != dims.shape:
        return
    for idx in np.ndindex(*dims.shape):
        w.ob(f"entry{list(idx)}", w.same(y.values[idx], X[idx]))
    w.ob_arr_eq("array_unchanged", x.values, X)

"""C05 -- assignment into a declared array keeps its dims and sums the source by label."""
from __future__ import annotations

import itertools

import numpy as np

from svx.configs import make_dimset, make_dim, label_tuples, lens_key, ordered_subsets, NAMES
from checks.keys import selector_tuples, sel_key, spellings, build_key, region, src_index, SUBLETTER

PROPERTY = "C05"
FUNCTIONS = ["FlodymArray.__setitem__", "FlodymArray.set_values", "FlodymArray._check_value_format", "FlodymArray.sum_values_to",
             "SubArrayHandler._init_ids", "SubArrayHandler._init_dims_out"]
ASSUMPTIONS = ["sources under a subset-Dimension key carry that same subset Dimension (same letter and items)"]
OUTSIDE = ["FlodymArray sources under list selectors", "targets with more than 4 dimensions", "keyed (non-ellipsis) ndarray assignment with a broadcastable shape (numpy semantics, not claimed by the property)"]
VARIANTS = 'list selectors (several items of a dimension that keeps its letter) with FlodymArray right-hand sides, the list also as ndarray / tuple / dict keys; keys by letter and by name; one key object mutated between assignments; integer items out of order; dtype shadow (float64 target, integer right-hand sides); int fill followed by fractions (dtype shadow)'
BOUNDS = {
    "quick": dict(targets="(a2) (a2,b3) (b3,a2) (a2,b2) (a2,b3,c2)", keys="ellipsis + every none/item/subset selector tuple (subsets <= 2 items on 3-d)",
                  sources="every ordered subset of region letters + up to 2 surplus letters; number; ndarray exact / wrong shapes", histories="all ordered pairs of 2-d keys x {number, array}"),
    "thorough": dict(targets="quick + (a3,b3) (a2,b2,c2,d2) (c2,a3,b2)", keys="as quick", sources="as quick with 3 surplus letters", histories="pairs and triples"),
}
for _t in BOUNDS.values():
    _t["variants_beyond_the_base_enumeration"] = VARIANTS
# dtype shadow: a float64 target receiving integer-dtype right-hand sides (differential concrete run)
def DTYPE_SHADOW(cfg):
    if cfg["h"] in ("whole_nd", "whole_num"):
        return "always"
    if cfg["h"] == "history":
        # histories that start with a whole-array fill by a number: always (the fill is an int there, what follows is not whole)
        return "always" if (cfg["kinds"][0] == "num" and all(s[0] == "none" for s in cfg["seq"][0])) else True
    return cfg["h"] == "assign_fa"
OPTS = {"quick": dict(shadow_every=60), "thorough": dict(shadow_every=400)}

TARGETS_Q = ["a2", "a2b3", "b3a2", "a2b2", "a2b3c2"]
TARGETS_T = TARGETS_Q + ["a3b3", "c2a3b2", "a2b2c2d2"]


def _parse(shape):
    return shape[0::2], {shape[i]: int(shape[i + 1]) for i in range(0, len(shape), 2)}


def configs(tier, seed):
    out = []
    U = "abcd" if tier == "quick" else "abcde"
    for shape in (TARGETS_Q if tier == "quick" else TARGETS_T):
        td, lens = _parse(shape)
        big = len(td) >= 3
        # (list selectors -- several items of a dimension that keeps its letter -- on the smaller targets)
        sels = list(selector_tuples(td, lens, ("none", "item", "sub") if big else ("none", "item", "sub", "list"), sub_limit=2 if big else None, max_sub_dims=1 if big else None))
        for sel in sels:
            out_letters, out_idx, fixed = region(sel, td, lens)
            extras = [l for l in U if l not in out_letters and SUBLETTER.get(l) not in out_letters][: (2 if tier == "quick" else 3)]
            # sources: every ordered arrangement of (region letters [+/- one missing]) + some surplus
            cands = set()
            for k in range(0, min(len(extras), 2) + 1):
                for ex in itertools.combinations(extras, k):
                    base = list(out_letters) + list(ex)
                    for perm in itertools.permutations(base):
                        cands.add("".join(perm))
            for miss in range(len(out_letters)):
                base = [l for i, l in enumerate(out_letters) if i != miss]
                cands.add("".join(base))
                if extras:
                    cands.add("".join(base + [extras[0]]))
            cands = sorted(cands)
            if big and tier == "quick":
                cands = [c for c in cands if len(c) <= 3]
            for sd in cands:
                if len(sd) > 4:
                    continue
                # (keys name their dimension by letter; every other source arrangement also by the dimension's name)
                sps = ["ellipsis"] if all(s[0] == "none" for s in sel) else (["dictl", "dictn"] if len(out) % 2 else ["dictl"])
                if any(s[0] == "list" for s in sel) and sps != ["ellipsis"]:
                    # the several items of a list selector handed over as another iterable than a list
                    sps = sps + [["dictl_nd", "dictl_tup", "dictl_it"][len(out) % 3]]
                for sp in sps:
                    out.append(dict(h="assign_fa", op=sp, key=f"assign_fa/{shape}/{sel_key(sel)}/{sp}/src={sd or '-'}", td=td, lens=lens,
                                    sel=[list(s) for s in sel], sp=sp, sd=sd))
        # whole-array ndarray / number
        tshape = tuple(lens[l] for l in td)
        wrong = set()
        wrong.add(tshape[::-1])
        wrong.add(tshape[1:])
        wrong.add((1,) + tshape)
        wrong.add(tshape + (1,))
        wrong.add(tuple(1 for _ in tshape))
        wrong.add((1,) + tshape[1:])
        wrong.add(tshape[:-1] + (1,))
        wrong.add(tshape[:-1])
        wrong.add((int(np.prod(tshape)),))
        wrong.add(())
        wrong.discard(tshape)
        for how in ("setitem", "set_values"):
            out.append(dict(h="whole_nd", op=how, key=f"whole_nd/{shape}/{how}/exact", td=td, lens=lens, how=how, shape=list(tshape)))
            for ws in sorted(wrong):
                out.append(dict(h="whole_nd", op=how, key=f"whole_nd/{shape}/{how}/wrong={'x'.join(map(str, ws)) or 'scalar0d'}", td=td, lens=lens, how=how, shape=list(ws)))
            out.append(dict(h="whole_num", op=how, key=f"whole_num/{shape}/{how}", td=td, lens=lens, how=how))
        out.append(dict(h="whole_bad", op="bad", key=f"whole_bad/{shape}", td=td, lens=lens))
    # histories on 2-d targets
    for shape in (["a2b2", "a2b3"] if tier == "quick" else ["a2b2", "a2b3", "a3b3"]):
        td, lens = _parse(shape)
        sels = list(selector_tuples(td, lens, ("none", "item"))) + [s for s in selector_tuples(td, lens, ("none", "sub"), sub_limit=2) if any(x[0] == "sub" for x in s)][:6]
        steps = 2
        for seq in itertools.product(range(len(sels)), repeat=steps):
            for kinds in itertools.product(["num", "fa"], repeat=steps):
                out.append(dict(h="history", op="hist", key=f"history/{shape}/" + ">".join(f"{sel_key(sels[i])}:{k}" for i, k in zip(seq, kinds)),
                                td=td, lens=lens, seq=[[list(s) for s in sels[i]] for i in seq], kinds=list(kinds)))
        if tier == "thorough":
            import random

            rnd = random.Random(1234)
            for _ in range(600):
                seq = [rnd.randrange(len(sels)) for _ in range(3)]
                kinds = [rnd.choice(["num", "fa"]) for _ in range(3)]
                out.append(dict(h="history", op="hist3", key=f"history3/{shape}/" + ">".join(f"{sel_key(sels[i])}:{k}" for i, k in zip(seq, kinds)),
                                td=td, lens=lens, seq=[[list(s) for s in sels[i]] for i in seq], kinds=list(kinds)))
    # one key object re-used and mutated in place between assignments (a loop over items)
    for shape in ["a2b3", "a3b2"]:
        td, lens = _parse(shape)
        for kind in ("dict_item", "dict_list", "dict_add_dim"):
            out.append(dict(h="mutated_key", op=kind, key=f"mutated_key/{shape}/{kind}", td=td, lens=lens, kind=kind))
    # key forms met in the wild: tuple keys with non-adjacent items of one dimension, labels that are falsy in Python
    from checks import c06 as _c06

    for c in _c06.configs("quick", seed):
        if c["h"] in ("tuple_key", "falsy_label", "int_labels") and c.get("rhs", "number") != "read":
            out.append(dict(c, td=c["xd"]))
    seen, res = set(), []
    for c in out:
        if c["key"] not in seen:
            seen.add(c["key"])
            res.append(c)
    return res


def _sel(raw):
    return tuple(tuple(s) if s[0] in ("none", "item") else (s[0], list(s[1])) for s in raw)


def _src(w, name, sd, lens_all, dims_all):
    from flodym import FlodymArray, DimensionSet

    shape = tuple(dims_all[l].len for l in sd)
    from svx.configs import relayout

    S = w.arr(name, shape)
    return FlodymArray(dims=DimensionSet(dim_list=[dims_all[l] for l in sd]), values=relayout(S.copy(), (len(name) + len(sd)) % 3)), S


def _expected_region(w, sel, td, lens, S, sd, dims_all):
    """dict target index -> expected value for a FlodymArray source summed by label"""
    out_letters, out_idx, fixed = region(sel, td, lens)
    oshape = tuple(len(i) for i in out_idx)
    surplus = [l for l in sd if l not in out_letters]
    exp = {}
    listed = {l: list(s_[1]) for l, s_ in zip(td, sel) if s_[0] == "list"}
    for pos in np.ndindex(*oshape):
        # (a list selector keeps the dimension's own letter: the source carries the whole dimension and is matched by label,
        # i.e. read at the position of the listed item; a subset Dimension has its own letter and its own positions)
        lab = {l: (listed[l][p] if l in listed else p) for l, p in zip(out_letters, pos)}
        tot = 0
        # summed in the reverse of any natural loop order on purpose: equality with flodym's sum is
        # then a solver-decided identity (associativity/commutativity), not a coincidence of term shape
        for rest in reversed(list(itertools.product(*[range(dims_all[l].len) for l in surplus]))):
            full = {**lab, **dict(zip(surplus, rest))}
            tot = tot + S[tuple(full[l] for l in sd)]
        exp[src_index(sel, td, pos)] = tot
    return exp


def _assert_unchanged(w, tag, t, T, td, shape):
    ok = tuple(t.dims.letters) == tuple(td) and isinstance(t.values, np.ndarray) and np.shape(t.values) == shape
    w.ob(f"{tag}:dims_and_shape_unchanged", ok, info=f"letters {t.dims.letters} values shape {np.shape(t.values)}")
    if ok:
        for idx in np.ndindex(*shape):
            w.ob(f"{tag}:unchanged{list(idx)}", w.same(t.values[idx], T[idx]))


def run(cfg, w):
    from flodym import FlodymArray, Dimension, DimensionSet

    if cfg["h"] in ("tuple_key", "falsy_label", "int_labels"):
        from checks import c06 as _c06

        return _c06.run(cfg, w)
    td, lens = cfg["td"], cfg["lens"]
    dims_all = {l: make_dim(l, lens.get(l, 2)) for l in "abcde"}
    shape = tuple(lens[l] for l in td)
    T = w.arr("t", shape)
    if getattr(w, "int_arrays", False):
        T = T.astype(np.float64)  # dtype shadow: the declared array keeps flodym's default dtype, what is assigned is integer
    from svx.configs import relayout

    lay = sum(map(ord, cfg["key"])) % 3
    t = FlodymArray(dims=make_dimset(td, lens, dims_all), values=relayout(T.copy(), lay), name="target")
    h = cfg["h"]
    if h == "assign_fa":
        sel = _sel(cfg["sel"])
        key, subdims = build_key(sel, td, dims_all, cfg["sp"])
        for l, sdim in subdims.items():
            dims_all[sdim.letter] = sdim
        out_letters, out_idx, fixed = region(sel, td, lens)
        sd = cfg["sd"]
        src, S = _src(w, "s", sd, lens, dims_all)
        lacks = any(l not in sd for l in out_letters)
        try:
            t[key] = src
        except Exception as e:
            w.ob("raises_only_when_source_lacks_a_region_dim", lacks, info=f"{type(e).__name__}: {str(e)[:200]}")
            _assert_unchanged(w, "after_raise", t, T, td, shape)
            return
        if lacks:
            w.ob("source_lacking_region_dim_must_be_rejected", False, info=f"region {out_letters} source {sd}")
            return
        ok = tuple(t.dims.letters) == tuple(td) and np.shape(t.values) == shape
        w.ob("dims_and_shape_unchanged", ok)
        if not ok:
            return
        exp = _expected_region(w, sel, td, lens, S, sd, dims_all)
        for idx in np.ndindex(*shape):
            if idx in exp:
                w.ob_eq(f"inside{list(idx)}", t.values[idx], exp[idx])
            else:
                w.ob(f"outside{list(idx)}", w.same(t.values[idx], T[idx]))
        w.ob_arr_eq("source_unchanged", src.values, S)
        # later changes to the source must not reach the target, and vice versa (no shared buffer)
        snap_t = t.values.copy()
        if src.values.size:
            src.values[...] = w.real("later_src")
            w.ob_arr_eq("target_independent_of_later_source_writes", t.values, snap_t)
            snap_s = src.values.copy()
            t.values[...] = w.real("later_tgt")
            w.ob_arr_eq("source_independent_of_later_target_writes", src.values, snap_s)
        return
    if h == "whole_nd":
        rshape = tuple(cfg["shape"])
        R = w.arr("r", rshape)
        R0 = R.copy()
        exact = rshape == shape
        try:
            if cfg["how"] == "setitem":
                t[...] = R
            else:
                t.set_values(R)
        except Exception as e:
            w.ob("raises_only_for_wrong_shape", not exact, info=f"{type(e).__name__}")
            _assert_unchanged(w, "after_raise", t, T, td, shape)
            return
        if not exact:
            w.ob("wrong_shape_must_be_rejected", False, info=f"ndarray of shape {rshape} accepted for target shape {shape}")
            _assert_unchanged(w, "after_accept", t, T, td, shape)
            return
        w.ob("dims_and_shape_unchanged", tuple(t.dims.letters) == tuple(td) and np.shape(t.values) == shape)
        w.ob_arr_eq("value", t.values, R0)
        if cfg["how"] == "setitem" and R.size:
            R[...] = w.real("later")
            w.ob_arr_eq("assigned_ndarray_is_copied", t.values, R0)
        return
    if h == "whole_num":
        k = w.real("k")
        if cfg["how"] == "setitem":
            t[...] = k
        else:
            t.set_values(k)
        w.ob("dims_and_shape_unchanged", tuple(t.dims.letters) == tuple(td) and np.shape(t.values) == shape)
        if np.shape(t.values) == shape:
            for idx in np.ndindex(*shape):
                w.ob(f"filled{list(idx)}", w.same(t.values[idx], k))
        return
    if h == "whole_bad":
        other = FlodymArray(dims=make_dimset(td, lens, dims_all), values=w.arr("o", shape))
        for name, call in [("set_values_flodym_array", lambda: t.set_values(other))]:
            try:
                call()
                w.ob(f"{name}_rejected", False)
            except Exception:
                w.ob(f"{name}_rejected", True)
            _assert_unchanged(w, name, t, T, td, shape)
        return
    if h == "mutated_key":
        la, lb = td[0], td[1]
        A, B = dims_all[la].items, dims_all[lb].items
        model = {idx: T[idx] for idx in np.ndindex(*shape)}
        kind = cfg["kind"]
        key = {la: A[0]} if kind != "dict_list" else {la: [A[0]]}
        steps = []
        for i in range(min(3, len(A))):
            if kind == "dict_item":
                key[la] = A[i]
                sel_a = [i]
                sel_b = list(range(len(B)))
            elif kind == "dict_list":
                if i:
                    key[la].append(A[i])
                sel_a = list(range(i + 1))
                sel_b = list(range(len(B)))
            else:
                key[la] = A[i]
                if i == 1:
                    key[lb] = B[-1]
                sel_a = [i]
                sel_b = [len(B) - 1] if i >= 1 else list(range(len(B)))
            k = w.real(f"k{i}")
            t[key] = k
            for ia in sel_a:
                for ib in sel_b:
                    model[(ia, ib)] = k
        w.ob("dims_and_shape_unchanged", tuple(t.dims.letters) == tuple(td) and np.shape(t.values) == shape)
        for idx in np.ndindex(*shape):
            w.ob_eq(f"after_loop_over_mutated_key{list(idx)}", t.values[idx], model[idx])
        return
    if h == "history":
        model = {idx: T[idx] for idx in np.ndindex(*shape)}
        for i, (raw, kind) in enumerate(zip(cfg["seq"], cfg["kinds"])):
            sel = _sel(raw)
            key, subdims = build_key(sel, td, dims_all, "dictl")
            d2 = dict(dims_all)
            for l, sdim in subdims.items():
                d2[sdim.letter] = sdim
            out_letters, out_idx, fixed = region(sel, td, lens)
            if all(s[0] == "none" for s in sel):
                key = Ellipsis
            if kind == "num":
                k = w.real(f"k{i}")
                if getattr(w, "int_arrays", False) and i == 0:
                    k = int(round(k)) or 1  # dtype shadow: the first fill is a Python int (a[...] = 0), later numbers are not whole
                t[key] = k
                for pos in np.ndindex(*tuple(len(x) for x in out_idx)):
                    model[src_index(sel, td, pos)] = k
            else:
                sd = "".join(out_letters[::-1]) + "d"
                src, S = _src(w, f"s{i}", sd, lens, d2)
                t[key] = src
                model.update(_expected_region(w, sel, td, lens, S, sd, d2))
        w.ob("dims_and_shape_unchanged", tuple(t.dims.letters) == tuple(td) and np.shape(t.values) == shape)
        for idx in np.ndindex(*shape):
            w.ob_eq(f"last_writer_wins{list(idx)}", t.values[idx], model[idx])
        return
    raise RuntimeError(h)

"""C12 -- data import refuses incomplete or inconsistent data unless told otherwise.

Symbolic: all cell values and the old values of the target.  The fault positions (which rows are
dropped / duplicated / relabelled / blanked, which column is removed) are *enumerated* (single faults
and all pairs at every position of frames with <= 6 rows) -- that part is fault enumeration, the
solver's share is the for-all-values part and the value/item confusion paths.
"""
from __future__ import annotations

import itertools

import numpy as np

from checks.frames import DIMSETS, build_dims, numeric_items

PROPERTY = "C12"
FUNCTIONS = ["DataFrameToFlodymDataConverter._check_data_complete", "DataFrameToFlodymDataConverter._check_missing_dim_columns",
             "DataFrameToFlodymDataConverter._check_value_columns", "DataFrameToFlodymDataConverter._check_if_valid_long_format",
             "FlodymArray.set_values_from_df", "FlodymArray.from_df", "CSVParameterReader.read_parameter_values", "ExcelParameterReader.read_parameter_values"]
ASSUMPTIONS = ["no cell value truncates to a numeric item of a dimension (value/item confusion is explored by C11)", "cell values pairwise different for frames with more than 4 cells", "file parsing is outside: pd.read_csv / pd.read_excel are replaced by a stub returning the prepared frame (the readers' flag forwarding and the call into from_df are inside)",
               "no cell value truncates to a numeric item of a dimension for frames with more than 4 cells"]
OUTSIDE = ["CSV / Excel text parsing", "more than two simultaneous faults", "frames with more than 6 rows"]
VARIANTS = 'an unknown integer label between two known ones; a nullable-integer value column with pd.NA (float64 run); a second non-dimension column holding text; an unknown item in a one-item dimension column headed by neither name nor letter; labels stored as text in an integer dimension; row labels as pd.concat leaves them; falsy unknown labels; readers through CompoundDataReader.read_parameters; an ignored row without a value; a 1-d array over items 0..n-1; infinite present entries (float64 run)'
BOUNDS = {"quick": dict(dimsets=["r2", "a3i0", "T2_r2", "r2_p3u", "s1_r2_p2"], layouts="long (columns / index) and wide", faults="every single fault at every position; every pair on frames <= 4 rows",
                        flags="all four combinations"),
          "thorough": dict(dimsets=["r2", "a3i0", "t2i", "T2_r2", "r2_p3u", "s1_r2_p2", "T2_r2_p2"], layouts="as quick", faults="every single fault and every pair at every position (frames <= 8 rows)", flags="all four combinations")}
for _t in BOUNDS.values():
    _t["variants_beyond_the_base_enumeration"] = VARIANTS
OPTS = {"quick": dict(shadow_every=25, max_paths=300, max_depth=600), "thorough": dict(shadow_every=100, max_paths=1000, max_depth=1500)}
# rows with unknown labels get NaN positions: the float64 path casts them to an integer silently where the object path would
# raise, so these configurations are always run once more on the unstubbed float64 code as well (shadow, 2.5)
SHADOW_ALWAYS = lambda cfg: cfg.get("infinite") or any(f[0].startswith(("relabel", "extra_row", "blank_na_int")) for f in cfg.get("faults", []))
FLAGS = [(False, False), (True, False), (False, True), (True, True)]  # (allow_missing, allow_extra)


def _nrows(name):
    return int(np.prod([len(s[2]) for s in DIMSETS[name]]))


def _single_faults(name, layout):
    n = _nrows(name)
    spec = DIMSETS[name]
    out = []
    if layout == "wide":
        last = spec[-1]
        nr = n // len(last[2])
        for i in range(nr):
            out += [("drop", i), ("dup", i), ("relabel", i), ("extra_row", i)]
            if len(last[2]) >= 2 and i in (0, nr - 1):
                out.append(("dup_complementary", i))  # one id row given twice, each copy filling other cells (two half-filled rows)
            for j in range(len(last[2])):
                out += [("blank_nan", i, j), ("blank_none", i, j)]
        for j in range(len(last[2])):
            out.append(("drop_item_column", j))
        for k, s in enumerate(spec[:-1]):
            out.append(("drop_dim_column", k))
        return out
    for i in range(n):
        out += [("drop", i), ("dup", i), ("dup_other_value", i), ("relabel", i), ("blank_nan", i), ("blank_none", i), ("extra_row", i)]
        if i in (0, n - 1):
            out.append(("blank_na_int", i))  # (decided by the float64 run: a nullable-integer value column whose empty cell is pd.NA)
            out += [("relabel_falsy", i), ("extra_row_falsy", i), ("extra_row_blank", i)]  # (blank: a row to be ignored that has no value either)
        if spec[0][3] is int and len(spec[0][2]) >= 2 and spec[0][2][1] - spec[0][2][0] > 1 and i in (0, n - 1):
            out.append(("relabel_between", i))  # an unknown integer label strictly between two known ones (1995 in 1990, 2000, 2010)
        if any(s[3] is int for s in spec):
            out.append(("dup_retyped", i))  # the same labels once more, the integer-typed one stored as text
    for k, s in enumerate(spec):
        out.append(("drop_dim_column", k))
    out.append(("extra_value_column",))
    out.append(("extra_text_column",))  # a second non-dimension column holding text (a unit, a source): two value columns that match no dimension
    if any(len(s[2]) == 1 and s[3] is str for s in spec):
        # a one-item text dimension in a column headed by neither its name nor its letter, one row carrying an unknown item:
        # the column is no dimension column then, and two non-dimension columns remain
        out += [("unnamed_single_item_column_unknown", 0), ("unnamed_single_item_column_unknown", n - 1)]
    return out


def configs(tier, seed):
    out = []
    for name in BOUNDS[tier]["dimsets"]:
        n = _nrows(name)
        for layout in ("long_cols", "long_cols_letters", "long_index", "wide"):
            if layout == "wide" and len(DIMSETS[name]) < 2:
                continue
            singles = _single_faults(name, "wide" if layout == "wide" else "long")
            sets = [[]] + [[f] for f in singles]
            if n <= (4 if tier == "quick" else 8) and layout in ("long_cols", "long_cols_letters"):
                sets += [list(p) for p in itertools.combinations(singles, 2)]
            for fs in sets:
                for (am, ae) in FLAGS:
                    if len(fs) == 2 and tier == "quick" and (am, ae) in ((True, False), (False, True)) and hash(str(fs)) % 2:
                        continue
                    fk = "+".join("_".join(map(str, f)) for f in fs) or "none"
                    out.append(dict(h="faults", op=layout, key=f"faults/{name}/{layout}/{fk}/am={int(am)}/ae={int(ae)}", ds=name, layout=layout, faults=[list(f) for f in fs], am=am, ae=ae))
                    if layout in ("long_cols", "long_cols_letters") and any(f[0] in ("extra_row", "extra_row_falsy", "extra_row_blank", "dup", "dup_other_value", "dup_retyped") for f in fs) and (len(fs) == 1 or tier == "thorough" or hash(str(fs)) % 3 == 0):
                        # the same frame with the row labels pd.concat leaves behind (added rows repeat labels of the table)
                        out.append(dict(h="faults", op=layout + "_concat", key=f"faults/{name}/{layout}/{fk}/am={int(am)}/ae={int(ae)}/rowlabels=concat", ds=name, layout=layout, faults=[list(f) for f in fs], am=am, ae=ae, rowlabels="concat"))
        # present entries that are infinite (decided by the float64 run of the same harness, always carried out)
        for layout in ("long_cols", "wide"):
            if layout == "wide" and len(DIMSETS[name]) < 2:
                continue
            for fs in ([], [("blank_nan", 0) if layout != "wide" else ("blank_nan", 0, 0)], [("drop", 0)]):
                for (am, ae) in FLAGS:
                    fk = "+".join("_".join(map(str, f)) for f in fs) or "none"
                    out.append(dict(h="faults", op=layout, key=f"faults/{name}/{layout}/{fk}/am={int(am)}/ae={int(ae)}/infinite_values", ds=name, layout=layout, faults=[list(f) for f in fs], am=am, ae=ae, infinite=True))
        # two imports in one process over same-named dimensions with other item orders (no state may leak)
        if len(DIMSETS[name]) >= 1 and n <= 6:
            for (am, ae) in FLAGS:
                out.append(dict(h="two_imports", op="two", key=f"two_imports/{name}/am={int(am)}/ae={int(ae)}", ds=name, layout="long_cols", faults=[], am=am, ae=ae))
        # the readers forward their flags
        for reader in ("csv", "excel"):
            for (am, ae) in FLAGS:
                for f in ([], [("drop", 0)], [("extra_row", 0)], [("blank_nan", n - 1)]):
                    fk = "+".join("_".join(map(str, x)) for x in f) or "none"
                    out.append(dict(h="reader", op=reader, key=f"reader/{reader}/{name}/{fk}/am={int(am)}/ae={int(ae)}", ds=name, layout="long_cols", faults=[list(x) for x in f], am=am, ae=ae, reader=reader))
                    # the same through CompoundDataReader.read_parameters, the definition listing the dimensions in reversed order
                    out.append(dict(h="reader", op=reader + "_compound", key=f"reader/{reader}/{name}/{fk}/am={int(am)}/ae={int(ae)}/compound", ds=name, layout="long_cols", faults=[list(x) for x in f], am=am, ae=ae, reader=reader, compound=True))
    return out


def ctx_setup(cfg, c):
    c.cands = tuple(numeric_items(cfg["ds"]))


def _unknown_item(s, falsy=False):
    if falsy:
        # an unknown label that is falsy in Python: period / age 0, a blank text label
        return 0 if s[3] is int else ""
    return 999 if s[3] is int else ("zz_unknown")


def _build(cfg, w):
    """rows model [(labels tuple, value or None/nan)], the faulty frame, and expected verdict"""
    import pandas as pd

    name = cfg["ds"]
    spec = DIMSETS[name]
    dims = build_dims(name)
    X = w.arr("x", dims.shape, default=lambda idx: (-1) ** sum(idx) * (10.375 + 1.25 * sum((k + 1) * 3 ** k * i for k, i in enumerate(idx))))
    if X.size > 4:
        w.assume_distinct(X)
    if cfg.get("infinite") and not w.sym:
        # float64 run only (the exact-real model has no infinities): the first entry is +inf, the last -inf -- present
        # entries like any other ("inf" in a CSV file for an unlimited capacity)
        X = X.copy()
        X.flat[0], X.flat[X.size - 1] = np.inf, -np.inf
    extra_syms = []

    def fresh(nm, default):
        v = w.real(nm, default=default)
        extra_syms.append(v)
        return v

    rows = []
    for idx in np.ndindex(*dims.shape):
        rows.append([tuple(s[2][i] for s, i in zip(spec, idx)), X[idx]])
    removed_dims, extra_value_col, removed_item_cols = [], False, []
    extra_text_col, unnamed_col = False, None
    na_int = False
    layout = cfg["layout"]
    faults = [tuple(f) for f in cfg["faults"]]
    if layout != "wide":
        base = list(rows)
        drops, adds = set(), []
        for f in faults:
            if f[0] == "drop":
                drops.add(f[1])
            elif f[0] == "dup":
                adds.append([base[f[1]][0], base[f[1]][1]])
            elif f[0] == "dup_other_value":
                adds.append([base[f[1]][0], fresh(f"dupval{f[1]}", 77.5)])
            elif f[0] == "dup_retyped":
                adds.append([tuple(str(l) if sp[3] is int else l for l, sp in zip(base[f[1]][0], spec)), fresh(f"retypedval{f[1]}", 66.5)])
            elif f[0] in ("relabel", "relabel_falsy", "relabel_between"):
                lab = list(base[f[1]][0])
                lab[0] = (spec[0][2][0] + spec[0][2][1]) // 2 if f[0] == "relabel_between" else _unknown_item(spec[0], falsy=f[0].endswith("falsy"))
                base[f[1]] = [tuple(lab), base[f[1]][1]]
            elif f[0] == "extra_row_blank":
                lab = list(base[f[1]][0])
                lab[-1] = _unknown_item(spec[-1])
                adds.append([tuple(lab), float("nan")])
            elif f[0] in ("extra_row", "extra_row_falsy"):
                lab = list(base[f[1]][0])
                lab[-1] = _unknown_item(spec[-1], falsy=f[0].endswith("falsy"))
                adds.append([tuple(lab), fresh(f"extraval{f[0][9:]}{f[1]}", 55.5)])
            elif f[0] in ("blank_nan", "blank_na_int"):
                base[f[1]] = [base[f[1]][0], float("nan")]
                na_int = na_int or f[0] == "blank_na_int"
            elif f[0] == "blank_none":
                base[f[1]] = [base[f[1]][0], None]
            elif f[0] == "drop_dim_column":
                removed_dims.append(f[1])
            elif f[0] == "extra_value_column":
                extra_value_col = True
            elif f[0] == "extra_text_column":
                extra_text_col = True
            elif f[0] == "unnamed_single_item_column_unknown":
                k1 = [k for k, sp in enumerate(spec) if len(sp[2]) == 1 and sp[3] is str][0]
                lab = list(base[f[1]][0])
                lab[k1] = "zz_unknown"
                base[f[1]] = [tuple(lab), base[f[1]][1]]
                unnamed_col = k1
        final = [r for i, r in enumerate(base) if i not in drops] + adds
        data = {s[1]: [r[0][k] for r in final] for k, s in enumerate(spec)}
        if na_int and not w.sym:
            # float64 run only: whole-numbered values in a pandas nullable-integer column, the empty cell being pd.NA
            for r in final:
                if not (r[1] is None or (isinstance(r[1], float) and r[1] != r[1])):
                    r[1] = float(int(round(float(r[1]))))
        data["value"] = [r[1] for r in final]
        df = pd.DataFrame(data)
        if na_int and not w.sym:
            df["value"] = pd.array([None if (v is None or v != v) else int(v) for v in data["value"]], dtype="Int64")
        if w.sym:
            df["value"] = df["value"].astype(object)
        if cfg.get("rowlabels") == "concat" and adds:
            # row labels as after pd.concat([table, additions]) without ignore_index: the additions repeat labels of the table
            df.index = [i for i in range(len(base)) if i not in drops] + list(range(len(adds)))
        for k in removed_dims:
            df = df.drop(columns=[spec[k][1]])
        if extra_value_col:
            df["second"] = [fresh(f"second{i}", 3.5 + i) for i in range(len(df))]
        if layout == "long_index":
            keep = [s[1] for k, s in enumerate(spec) if k not in removed_dims]
            if keep:
                df = df.set_index(keep)
        if layout == "long_cols_letters":
            df = df.rename(columns={s[1]: s[0] for s in spec})
        if extra_text_col:
            df["unit"] = ["t/yr"] * len(df)
        if unnamed_col is not None and (unnamed_col in removed_dims or not any(r[0][unnamed_col] == "zz_unknown" for r in final)):
            unnamed_col = None  # the relabelled row or the whole column was removed by the other fault: nothing is left of this one
        if unnamed_col is not None:
            nm = spec[unnamed_col][1]
            if layout == "long_index":
                df = df.rename_axis(index=lambda k_: "case" if k_ == nm else k_) if nm in (df.index.names or []) else df
            else:
                df = df.rename(columns={nm: "case", spec[unnamed_col][0]: "case"})
        model_rows = final
    else:
        last = spec[-1]
        others = spec[:-1]
        combos = list(itertools.product(*[s[2] for s in others]))
        table = {c: {it: X[tuple([s[2].index(ci) for s, ci in zip(others, c)] + [j])] for j, it in enumerate(last[2])} for c in combos}
        order = [[c, dict(table[c])] for c in combos]
        drops, adds = set(), []
        for f in faults:
            if f[0] == "drop":
                drops.add(f[1])
            elif f[0] == "dup":
                adds.append([order[f[1]][0], dict(order[f[1]][1])])
            elif f[0] == "dup_complementary":
                full = dict(order[f[1]][1])
                first_it = last[2][0]
                order[f[1]] = [order[f[1]][0], {it: (full[it] if it == first_it else float("nan")) for it in last[2]}]
                adds.append([order[f[1]][0], {it: (float("nan") if it == first_it else full[it]) for it in last[2]}])
            elif f[0] == "relabel":
                c = list(order[f[1]][0])
                c[0] = _unknown_item(others[0])
                order[f[1]] = [tuple(c), order[f[1]][1]]
            elif f[0] == "extra_row":
                c = list(order[f[1]][0])
                c[-1] = _unknown_item(others[-1])
                adds.append([tuple(c), {it: fresh(f"extraval{f[1]}_{j}", 55.5 + j) for j, it in enumerate(last[2])}])
            elif f[0] in ("blank_nan", "blank_none"):
                order[f[1]][1][last[2][f[2]]] = float("nan") if f[0] == "blank_nan" else None
            elif f[0] == "drop_item_column":
                removed_item_cols.append(last[2][f[1]])
            elif f[0] == "drop_dim_column":
                removed_dims.append(f[1])
        final = [r for i, r in enumerate(order) if i not in drops] + adds
        data = {s[1]: [r[0][k] for r in final] for k, s in enumerate(others)}
        for it in last[2]:
            if it not in removed_item_cols:
                data[it] = [r[1][it] for r in final]
        df = pd.DataFrame(data)
        for it in last[2]:
            if it in df.columns and w.sym:
                df[it] = df[it].astype(object)
        for k in removed_dims:
            df = df.drop(columns=[others[k][1]])
        model_rows = []
        for c, vals in final:
            for it in last[2]:
                if it not in removed_item_cols:
                    model_rows.append([tuple(c) + (it,), vals[it]])
    # value/item confusion is C11's subject: here no cell truncates to a numeric dimension item
    for k in numeric_items(name):
        for v_ in list(X.flat) + extra_syms:
            w.assume(w.or_(w.lt(v_, k), w.ge(v_, k + 1)))
    # a removed single-item dimension column is re-created by the importer with its only item
    for k in removed_dims:
        if len(spec[k][2]) == 1 and layout != "wide":
            for r in model_rows:
                lab = list(r[0])
                lab[k] = spec[k][2][0]
                r[0] = tuple(lab)
    # ---- verdict from the property text
    def blank(v):
        return v is None or (isinstance(v, float) and v != v)

    must_raise_always = False
    if any(len(spec[k][2]) > 1 for k in removed_dims):
        must_raise_always = True
    if extra_value_col or extra_text_col or unnamed_col is not None:
        must_raise_always = True
    if layout == "wide" and removed_item_cols and len(last[2]) - len(removed_item_cols) < 1:
        must_raise_always = True
    def typed(lab):
        # labels are converted to the dimension's declared type on import: "2000" in an int-typed dimension is the item 2000
        out = []
        for x, sp in zip(lab, spec):
            try:
                out.append(sp[3](x) if sp[3] is not None and not isinstance(x, sp[3]) else x)
            except Exception:
                out.append(x)
        return tuple(out)

    for r in model_rows:
        r[0] = typed(r[0])
    labs = [r[0] for r in model_rows]
    dup = len(set(labs)) != len(labs)
    # duplicated labels whose copies carry different values (or a value and a blank): "every present entry is placed under its
    # labels" cannot hold for both copies, so such data can only be refused -- whatever the flags
    seen_vals, dup_conflicting = {}, False
    for l, v_ in model_rows:
        if l in seen_vals and not (seen_vals[l] is v_):
            dup_conflicting = True
        seen_vals.setdefault(l, v_)
    known = lambda l: all(x in s[2] for x, s in zip(l, spec))
    has_unknown = any(not known(r[0]) for r in model_rows)
    present = {}
    for l, v in model_rows:
        if known(l):
            present[l] = v
    expected_labels = [tuple(s[2][i] for s, i in zip(spec, idx)) for idx in np.ndindex(*dims.shape)]
    missing = [l for l in expected_labels if l not in present or blank(present[l])]
    return dims, X, df, dict(must_raise_always=must_raise_always or dup_conflicting, dup=dup, has_unknown=has_unknown, missing=missing, present=present, expected_labels=expected_labels,
                            wide_partial=bool(removed_item_cols))


def _two_imports(cfg, w):
    import pandas as pd
    from flodym import FlodymArray, Dimension, DimensionSet

    spec = DIMSETS[cfg["ds"]]
    am, ae = cfg["am"], cfg["ae"]

    def dims_with(order):
        return DimensionSet(dim_list=[Dimension(name=N, letter=l, items=[items[i] for i in (order(len(items)))], dtype=dt) for (l, N, items, dt) in spec])

    first = dims_with(lambda n: list(range(n)))
    second = dims_with(lambda n: list(range(n))[::-1])
    for tag, ds in (("first", first), ("second_reversed_items", second)):
        X = w.arr("x_" + tag, ds.shape, default=lambda idx: 20.5 + 1.25 * sum((k + 1) * 3 ** k * i for k, i in enumerate(idx)))
        for k in numeric_items(cfg["ds"]):
            for v_ in X.flat:
                w.assume(w.or_(w.lt(v_, k), w.ge(v_, k + 1)))
        if X.size > 4:
            w.assume_distinct(X)
        rows = []
        for idx in np.ndindex(*ds.shape):
            rows.append([d.items[i] for d, i in zip(ds, idx)] + [X[idx]])
        df = pd.DataFrame(rows, columns=[d.name for d in ds] + ["value"])
        if w.sym:
            df["value"] = df["value"].astype(object)
        df = df.iloc[1:] if am else df  # with allow_missing: first combination missing -> zero
        y = FlodymArray.from_df(dims=ds, df=df, allow_missing_values=am, allow_extra_values=ae)
        for n_, idx in enumerate(np.ndindex(*ds.shape)):
            if am and n_ == 0:
                w.ob(f"{tag}:missing_is_zero{list(idx)}", w.eq(y.values[idx], 0))
            else:
                w.ob(f"{tag}:entry_under_its_labels{list(idx)}", w.same(y.values[idx], X[idx]))


def run(cfg, w):
    import pandas as pd
    from flodym import FlodymArray, Parameter

    if cfg["h"] == "two_imports":
        return _two_imports(cfg, w)
    dims, X, df, v = _build(cfg, w)
    am, ae = cfg["am"], cfg["ae"]
    spec = DIMSETS[cfg["ds"]]
    should_raise = v["must_raise_always"] or v["dup"] or (v["has_unknown"] and not ae) or (bool(v["missing"]) and not am)
    # duplicates and a missing item column of a wide frame are only specified for the default flags
    unspecified = (v["dup"] and (am or ae) and not v["must_raise_always"]) or (v["wide_partial"] and am)
    if cfg["h"] == "reader":
        import flodym.data_reader as dr

        class PdStub:
            def __init__(self):
                self.calls = []

            def read_csv(self, path, **kw):
                self.calls.append(("csv", path, kw))
                return df.copy()

            def read_excel(self, path, **kw):
                self.calls.append(("excel", path, kw))
                return df.copy()

        stub, old = PdStub(), dr.pd
        dr.pd = stub
        try:
            if cfg["reader"] == "csv":
                rd = dr.CSVParameterReader(parameter_files={"prm": "/nonexistent/prm.csv"}, allow_missing_values=am, allow_extra_values=ae)
            else:
                rd = dr.ExcelParameterReader(parameter_files={"prm": "/nonexistent/prm.xlsx"}, parameter_sheets={"prm": "Sheet1"}, allow_missing_values=am, allow_extra_values=ae)
            try:
                if cfg.get("compound"):
                    from flodym import Dimension, DimensionSet, ParameterDefinition

                    class NoDims(dr.DimensionReader):
                        def read_dimension(self, dimension_definition):
                            raise AssertionError("no dimension is read when parameters are")

                    sup = DimensionSet(dim_list=[Dimension(name="Unused one", letter="x", items=["x1", "x2"])] + list(build_dims(cfg["ds"]).dim_list)
                                       + [Dimension(name="Unused two", letter="y", items=[7, 8, 9], dtype=int)])
                    letters = tuple(sp[0] for sp in spec)[::-1]
                    got = dr.CompoundDataReader(dimension_reader=NoDims(), parameter_reader=rd).read_parameters(
                        [ParameterDefinition(name="prm", dim_letters=letters)], sup)
                    w.ob("one_parameter_per_definition", list(got) == ["prm"])
                    y = got["prm"]
                    w.ob("parameter_dims_in_listed_order", tuple(y.dims.letters) == letters and all(y.dims[l].items == list(sp[2]) for l, sp in zip(letters[::-1], spec)))
                    if y.dims.ndim == len(spec) and set(y.dims.letters) == set(letters):
                        y = y.cast_to(build_dims(cfg["ds"])) if False else Parameter(dims=build_dims(cfg["ds"]), values=np.transpose(y.values, [y.dims.letters.index(sp[0]) for sp in spec]), name=y.name)
                else:
                    y = rd.read_parameter_values("prm", build_dims(cfg["ds"]))
                raised = None
            except AssertionError:
                raise
            except Exception as e:
                y, raised = None, e
        finally:
            dr.pd = old
        w.ob("reader_called_pandas_once_with_the_file", len(stub.calls) == 1 and stub.calls[0][1].startswith("/nonexistent/prm"))
        if y is not None:
            w.ob("reader_returns_parameter_with_name", isinstance(y, Parameter) and y.name == "prm")
    else:
        T = w.arr("old", dims.shape)
        target = FlodymArray(dims=build_dims(cfg["ds"]), values=T.copy(), name="target")
        try:
            target.set_values_from_df(df, allow_missing_values=am, allow_extra_values=ae)
            raised = None
            y = target
        except Exception as e:
            raised, y = e, None
        if raised is not None:
            ok = isinstance(target.values, np.ndarray) and np.shape(target.values) == dims.shape
            w.ob("failed_import_leaves_target_shape", ok)
            if ok:
                for idx in np.ndindex(*dims.shape):
                    w.ob(f"failed_import_leaves_target_unchanged{list(idx)}", w.same(target.values[idx], T[idx]))
            try:
                FlodymArray.from_df(dims=build_dims(cfg["ds"]), df=df, allow_missing_values=am, allow_extra_values=ae)
                w.ob("from_df_raises_like_set_values_from_df", False)
            except Exception:
                w.ob("from_df_raises_like_set_values_from_df", True)
    if raised is not None:
        w.ob("raises_only_when_the_data_is_faulty_for_these_flags", should_raise or unspecified, info=f"{type(raised).__name__}: {str(raised)[:160]}")
        return
    if should_raise and not unspecified:
        w.ob("faulty_data_must_be_refused", False, info=f"dup={v['dup']} unknown={v['has_unknown']} missing={len(v['missing'])} always={v['must_raise_always']}")
    w.ob("shape", np.shape(y.values) == dims.shape)
    if np.shape(y.values) != dims.shape:
        return
    if unspecified:
        return
    for idx in np.ndindex(*dims.shape):
        lab = tuple(s[2][i] for s, i in zip(spec, idx))
        if lab in v["missing"]:
            w.ob(f"missing_entry_is_zero{list(idx)}", w.eq(y.values[idx], 0))
        else:
            w.ob(f"present_entry_under_its_labels{list(idx)}", w.same(y.values[idx], v["present"][lab]))

"""C14 -- dimension sets behave as ordered sets of uniquely lettered dimensions.

The *letters* are symbolic (SymLetter: a one-character str whose equality with another
SymLetter is a solver decision), so one path stands for every alphabet with that equality
pattern.  Names are concrete, pairwise distinct and at least two characters long.
"""
from __future__ import annotations

import itertools

import numpy as np
import z3

PROPERTY = "C14"
FUNCTIONS = ["DimensionSet.no_repeated_dimensions", "DimensionSet.copy_dim_list", "DimensionSet._full_mapping", "DimensionSet.get_subset",
             "DimensionSet.expand_by", "DimensionSet.append", "DimensionSet.prepend", "DimensionSet.insert", "DimensionSet.drop",
             "DimensionSet.replace", "DimensionSet.intersect_with", "DimensionSet.union_with", "DimensionSet.difference_with",
             "DimensionSet.__xor__", "DimensionSet.__add__", "DimensionSet.index", "DimensionSet.copy"]
ASSUMPTIONS = ["dimension names concrete, pairwise distinct, >= 2 characters", "dimensions handed to a mutator together (expand_by) have pairwise distinct letters",
               "replace(key, d) with d's letter equal to the replaced dimension's own letter: either outcome accepted (the property only speaks of clashes)"]
OUTSIDE = ["sets with more than 4 dimensions", "letters that coincide with names"]
VARIANTS = 'every insert position incl. negative; dimensions sharing a name; receivers looked up before every operation; keys as one-shot iterables; Dimension + set; set + Dimension, set ^ Dimension'
BOUNDS = {"quick": dict(sizes="|A|,|B| <= 3, all pairs", ops="| & - ^ + get_subset [] in index size shape total_size append prepend insert expand_by replace drop copy constructor",
                        histories="2-step sequences of in-place / out-of-place mutators"),
          "thorough": dict(sizes="|A|,|B| <= 4", ops="as quick", histories="2- and 3-step sequences")}
for _t in BOUNDS.values():
    _t["variants_beyond_the_base_enumeration"] = VARIANTS
OPTS = {"quick": dict(shadow_every=10, max_paths=3000, max_depth=3000), "thorough": dict(shadow_every=40, max_paths=20000, max_depth=400)}
BINOPS = ["or", "and", "sub", "xor", "add"]
LOOKUPS = ["subset_letters", "subset_names", "subset_mixed", "subset_none", "getitem", "contains", "index_size_shape", "copy"]
MUTATORS = ["append", "prepend", "insert", "expand_by", "replace", "drop"]


def configs(tier, seed):
    out = []
    N = 3 if tier == "quick" else 4
    for na in range(0, N + 1):
        for nb in range(0, N + 1):
            for op in BINOPS:
                out.append(dict(h="binop", op=op, key=f"binop/{op}/A{na}/B{nb}", na=na, nb=nb))
        out.append(dict(h="ctor", op="ctor", key=f"ctor/A{na}", na=na))
        for op in LOOKUPS:
            if op.startswith("subset") and op != "subset_none":
                for k in range(na + 1):
                    for sel in itertools.permutations(range(na), k):
                        out.append(dict(h="lookup", op=op, key=f"lookup/{op}/A{na}/sel={''.join(map(str, sel)) or '-'}", na=na, sel=list(sel)))
            else:
                out.append(dict(h="lookup", op=op, key=f"lookup/{op}/A{na}", na=na, sel=[]))
        for op in MUTATORS:
            for inplace in (False, True):
                out.append(dict(h="mutate", op=op, key=f"mutate/{op}/A{na}/inplace={int(inplace)}", na=na, inplace=inplace))
                if op == "insert":
                    # every position a list accepts: front, inside, end, beyond either end, negative (counted from the end)
                    for pos in sorted({0, na, na + 2, -1, -na, -na - 2, max(na - 1, 0)} - {min(1, na)}):
                        out.append(dict(h="mutate", op=op, key=f"mutate/{op}/A{na}/inplace={int(inplace)}/pos={pos}", na=na, inplace=inplace, pos=pos))
                if op in ("replace", "drop", "insert") and na >= 2:
                    # several dimensions share one name (only letters are unique): everything addressed by letter still works
                    out.append(dict(h="mutate", op=op, key=f"mutate/{op}/A{na}/inplace={int(inplace)}/same_names", na=na, inplace=inplace, same_names=True))
    hl = [2] if tier == "quick" else [2, 3]
    for L in hl:
        for na in ([2] if tier == "quick" else [2, 3]):
            for seq in itertools.product(MUTATORS, repeat=L):
                for ips in itertools.product([False, True], repeat=L):
                    if L == 3 and (hash((seq, ips)) % 5):
                        continue
                    out.append(dict(h="history", op="hist", key=f"history/A{na}/" + ">".join(f"{o}{'!' if i else ''}" for o, i in zip(seq, ips)), na=na, seq=list(seq), ips=list(ips)))
    return out


class Env:
    def __init__(self, w):
        self.w = w
        self.k = 0
        self.same_names = False

    def dim(self, tag, n_items=None):
        """a fresh Dimension with a symbolic letter"""
        from flodym import Dimension

        self.k += 1
        n_items = n_items or (1 + self.k % 3)
        d = Dimension(name=(f"Same{tag}" if self.same_names else f"{tag}{self.k:02d}"), letter="x", items=[f"{tag}{self.k}_{i}" for i in range(n_items)])
        if self.w.sym:
            from svx.sym import SymLetter

            ident = z3.Int(f"letter_{tag}{self.k}")
            self.w.ctx.assume(ident >= 0)
            self.w.inputs[f"letter_{tag}{self.k}"] = ident
            d.letter = SymLetter(chr(ord("a") + (self.k % 26)), ident)
        else:
            v = self.w.values.get(f"letter_{tag}{self.k}")
            code = int(v) if v is not None else 1000 + self.k
            d.letter = chr(0x4E00 + code % 20000)  # one distinct character per identity
        return d


def probe_dim(env, w, existing, tag="P"):
    """a fresh dimension whose letter is assumed different from every existing one (no fork)"""
    d = env.dim(tag)
    if w.sym:
        for e in existing:
            if e is not d:
                w.ctx.assume(d.letter.ident != e.letter.ident)
    return d


def same_letter(a, b):
    return bool(a.letter == b.letter)


def has_letter(lst, d):
    return any(same_letter(x, d) for x in lst)


def ids(lst):
    return [id(x) for x in lst]


def mk_set(dims):
    from flodym import DimensionSet

    return DimensionSet(dim_list=list(dims))


def valid(lst):
    return not any(same_letter(a, b) for a, b in itertools.combinations(lst, 2))


def check_list(w, tag, ds, want, absent=()):
    """ds.dim_list must be exactly the model list (same Dimension objects in the same order) and consistent"""
    got = list(ds.dim_list)
    w.ob(f"{tag}:dims", ids(got) == ids(want), info=f"got {[d.name for d in got]} want {[d.name for d in want]}")
    w.ob(f"{tag}:letters_property", tuple(ds.letters) == tuple(d.letter for d in got) and ds.names == tuple(d.name for d in got))
    w.ob(f"{tag}:len_ndim_bool", len(ds) == len(got) and ds.ndim == len(got) and bool(ds) == (len(got) > 0))
    w.ob(f"{tag}:shape", tuple(ds.shape) == tuple(len(d.items) for d in got) and ds.total_size == int(np.prod([len(d.items) for d in got] or [1])))
    w.ob(f"{tag}:letters_unique", valid(got))
    # lookup by name agrees with the list (and nothing else is a member): the set's lookup tables follow its list
    ok = True
    unique_names = len({d.name for d in got}) == len(got)
    for d in got:
        if not unique_names:
            # shared names: the letter is the key
            try:
                ok = ok and ds[d.letter] is d and ds.index(d.letter) == [id(x) for x in got].index(id(d)) and ds.size(d.letter) == len(d.items)
            except Exception:
                ok = False
            continue
        try:
            ok = ok and ds[d.name] is d and d.name in ds and ds.index(d.name) == got.index(d) and ds.size(d.name) == len(d.items)
        except Exception:
            ok = False
    for x in absent:
        if not any(x is d for d in got):
            try:
                ds[x.name]
                ok = False
            except Exception:
                pass
            ok = ok and x.name not in ds
    w.ob(f"{tag}:lookup_by_name_agrees_with_list", ok)


def make_sets(cfg, w, env):
    A = [env.dim("A") for _ in range(cfg["na"])]
    B = [env.dim("B") for _ in range(cfg.get("nb", 0))]
    return A, B


def run(cfg, w):
    from flodym import DimensionSet, Dimension

    env = Env(w)
    h = cfg["h"]
    env.same_names = bool(cfg.get("same_names"))
    A, B = make_sets(cfg, w, env)
    env.same_names = False
    if h == "ctor":
        try:
            sa = mk_set(A)
        except Exception:
            w.ob("constructor_rejects_only_clashing_letters", not valid(A))
            return
        w.ob("constructor_rejects_clashing_letters", valid(A))
        check_list(w, "ctor", sa, A)
        w.ob("private_list", sa.dim_list is not A)
        A.append(env.dim("Z"))
        w.ob("caller_list_not_shared", len(sa) == cfg["na"])
        e = DimensionSet.empty()
        check_list(w, "empty", e, [])
        return
    # all other harnesses start from valid sets (assumption = constructor accepted them)
    try:
        sa = mk_set(A)
        sb = mk_set(B)
    except Exception:
        w.ob("constructor_rejects_only_clashing_letters", not (valid(A) and valid(B)))
        return
    # the receiver has been used before (lookups by name, shape): whatever it caches is filled when the operation starts
    for d in A:
        sa[d.name], sa.size(d.name)
    for d in B:
        sb[d.name]
    sa.shape, sb.shape
    if h == "binop":
        op = cfg["op"]
        a_in_b = [d for d in A if has_letter(B, d)]
        a_not_b = [d for d in A if not has_letter(B, d)]
        b_not_a = [d for d in B if not has_letter(A, d)]
        want = {"or": A + b_not_a, "and": a_in_b, "sub": a_not_b, "xor": a_not_b + b_not_a, "add": A + B}[op]
        if op == "add" and len(A) == 1:
            # a single Dimension as the left operand of '+': the same rule (a shared letter is refused, nothing is dropped)
            for tag2, right in (("dimension_plus_set", sb),) + ((("dimension_plus_dimension", B[0]),) if len(B) == 1 else ()):
                try:
                    r3 = A[0] + right
                    w.ob(f"{tag2}:refuses_overlap", len(a_in_b) == 0)
                    check_list(w, f"{tag2}:result", r3, A + B)
                except Exception as e:
                    w.ob(f"{tag2}:raises_only_for_overlap", len(a_in_b) > 0, info=f"{type(e).__name__}: {e}")
        try:
            res = {"or": lambda: sa | sb, "and": lambda: sa & sb, "sub": lambda: sa - sb, "xor": lambda: sa ^ sb, "add": lambda: sa + sb}[op]()
        except Exception as e:
            w.ob("raises_only_for_overlapping_plus", op == "add" and len(a_in_b) > 0, info=f"{type(e).__name__}: {e}")
            check_list(w, "receiver_after_raise", sa, A)
            if len(B) == 1:
                # ... and the same refusal when the right operand is the bare Dimension
                try:
                    r4 = sa + B[0]
                    w.ob("set_plus_dimension:refuses_overlap", False, info=str([d.letter for d in r4.dim_list]))
                except Exception:
                    pass
                check_list(w, "set_plus_dimension:receiver_after_raise", sa, A)
            return
        if op == "add":
            w.ob("plus_refuses_overlap", len(a_in_b) == 0)
        check_list(w, "result", res, want)
        check_list(w, "receiver_unchanged", sa, A)
        check_list(w, "other_unchanged", sb, B)
        # the result can be modified in place without affecting the operands
        f = probe_dim(env, w, A + B)
        res.append(f, inplace=True)
        check_list(w, "receiver_after_inplace_edit_of_result", sa, A, absent=[f])
        check_list(w, "other_after_inplace_edit_of_result", sb, B, absent=[f])
        if op in ("add", "xor") and len(B) == 1:
            # a single Dimension as the right operand: the same rule as for the one-dimension set
            try:
                r4 = sa + B[0] if op == "add" else sa ^ B[0]
                check_list(w, "set_op_dimension:result", r4, want)
            except Exception as e:
                w.ob("set_op_dimension:raises_only_for_overlapping_plus", False, info=f"{type(e).__name__}: {e}")
            check_list(w, "set_op_dimension:receiver_unchanged", sa, A)
        if op in ("or", "and", "sub") and len(B) == 1:
            r2 = {"or": lambda: sa | B[0], "and": lambda: sa & B[0], "sub": lambda: sa - B[0]}[op]()
            w.ob("single_dimension_operand", ids(r2.dim_list) == ids(want))
            # the one-dimension set a Dimension hands out is the caller's: editing it in place does not change what the
            # Dimension stands for as an operand later on
            own = B[0].as_dimset()
            own.append(probe_dim(env, w, A + B), inplace=True)
            r3 = {"or": lambda: sa | B[0], "and": lambda: sa & B[0], "sub": lambda: sa - B[0]}[op]()
            w.ob("single_dimension_operand_after_its_set_was_edited", ids(r3.dim_list) == ids(want), info=str([d.name for d in r3.dim_list]))
            check_list(w, "fresh_as_dimset", B[0].as_dimset(), [B[0]])
        return
    if h == "lookup":
        op = cfg["op"]
        if op.startswith("subset"):
            sel = cfg["sel"]
            if op == "subset_none":
                res = sa.get_subset()
                want = list(A)
            else:
                keys = tuple(A[i].letter if (op == "subset_letters" or (op == "subset_mixed" and j % 2)) else A[i].name for j, i in enumerate(sel))
                res = sa.get_subset(keys)
                want = [A[i] for i in sel]
                r2 = sa[keys]
                w.ob("tuple_getitem", ids(r2.dim_list) == ids(want))
                # the keys as a list and as one-shot iterables (a generator, reversed(), map): the same subset
                for how, arg in (("list", list(keys)), ("generator", (k_ for k_ in keys)), ("iterator", iter(list(keys))),
                                 ("reversed", reversed(list(keys)[::-1])), ("map", map(lambda k_: k_, keys))):
                    try:
                        r3 = sa.get_subset(arg)
                        w.ob(f"keys_as_{how}", ids(r3.dim_list) == ids(want), info=str([d.name for d in r3.dim_list]))
                    except Exception as e:
                        w.ob(f"keys_as_{how}", False, info=f"{type(e).__name__}: {e}")
            check_list(w, "subset", res, want)
            check_list(w, "receiver", sa, A)
            f = probe_dim(env, w, A)
            res.append(f, inplace=True)
            check_list(w, "receiver_after_inplace_edit_of_subset", sa, A, absent=[f])
            check_list(w, "subset_after_inplace_edit", res, want + [f])
            if A and not sel:
                try:
                    sa.get_subset(("Nope__",))
                    w.ob("unknown_key_rejected", False)
                except Exception:
                    w.ob("unknown_key_rejected", True)
            return
        if op == "getitem":
            for i, d in enumerate(A):
                w.ob(f"by_name[{i}]", sa[d.name] is d)
                w.ob(f"by_letter[{i}]", sa[d.letter] is d)
                w.ob(f"by_position[{i}]", sa[i] is d and sa[i - len(A)] is d)
            w.ob("iteration_order", ids(list(iter(sa))) == ids(A))
            for bad in ("Nope__", 99, 1.5):
                try:
                    sa[bad]
                    w.ob(f"bad_key_rejected[{bad}]", False)
                except Exception:
                    w.ob(f"bad_key_rejected[{bad}]", True)
            return
        if op == "contains":
            x = env.dim("X")
            w.ob("foreign_dimension_membership", (x in sa) == has_letter(A, x))
            w.ob("foreign_letter_membership", (x.letter in sa) == has_letter(A, x))
            for i, d in enumerate(A):
                w.ob(f"own[{i}]", (d in sa) and (d.letter in sa) and (d.name in sa))
            w.ob("unknown_name", "Nope__" not in sa)
            return
        if op == "index_size_shape":
            for i, d in enumerate(A):
                w.ob(f"index[{i}]", sa.index(d.name) == i and sa.index(d.letter) == i)
                w.ob(f"size[{i}]", sa.size(d.name) == len(d.items) and sa.size(d.letter) == len(d.items))
            from flodym import Dimension

            for i, d in enumerate(A):
                w.ob(f"item_positions[{i}]", [d.index(it) for it in d.items] == list(range(len(d.items))) and d.len == len(d.items))
                part = Dimension(name=d.name + "Part", letter="z", items=list(d.items[::-1][:max(1, len(d.items) - 1)]))
                strict = len(part.items) < len(d.items)
                w.ob(f"item_subset_superset[{i}]", part.is_subset(d) and d.is_superset(part) and d.is_subset(d) and d.is_superset(d)
                     and (part.is_superset(d) == (not strict)) and (d.is_subset(part) == (not strict)))
            check_list(w, "set", sa, A)
            w.ob("string", sa.string == "".join(d.letter for d in A))
            return
        if op == "copy":
            c = sa.copy()
            check_list(w, "copy", c, A)
            w.ob("copy_is_new_object_with_own_list", c is not sa and c.dim_list is not sa.dim_list)
            f = probe_dim(env, w, A)
            c.append(f, inplace=True)
            check_list(w, "receiver_after_inplace_edit_of_copy", sa, A, absent=[f])
            return
    if h in ("mutate", "history"):
        steps = [(cfg["op"], cfg["inplace"])] if h == "mutate" else list(zip(cfg["seq"], cfg["ips"]))
        cur, model = sa, list(A)
        for si, (op, inplace) in enumerate(steps):
            before = list(model)
            holder = cur
            new = env.dim("N")
            new2 = env.dim("M")
            tag = f"step{si}:{op}"
            pos = cfg.get("pos", min(1, len(model)))
            target = model[len(model) // 2] if model else None
            must_raise = False
            either = False
            if op == "append":
                call = lambda: holder.append(new, inplace=inplace)
                want = model + [new]
                must_raise = has_letter(model, new)
            elif op == "prepend":
                call = lambda: holder.prepend(new, inplace=inplace)
                want = [new] + model
                must_raise = has_letter(model, new)
            elif op == "insert":
                call = lambda: holder.insert(pos, new, inplace=inplace)
                want = list(model)
                want.insert(pos, new)  # the ordered-list model: Python's own list.insert
                must_raise = has_letter(model, new)
            elif op == "expand_by":
                if same_letter(new, new2):
                    w.ob(f"{tag}:skipped_nondistinct_added_dims", True)
                    return
                call = lambda: holder.expand_by([new, new2], inplace=inplace)
                want = model + [new, new2]
                must_raise = has_letter(model, new) or has_letter(model, new2)
            elif op == "replace":
                if target is None:
                    w.ob(f"{tag}:nothing_to_replace", True)
                    return
                key = target.name if (si % 2 and not cfg.get("same_names")) else target.letter
                call = lambda: holder.replace(key, new, inplace=inplace)
                i = ids(model).index(id(target))
                want = model[:i] + [new] + model[i + 1:]
                others = model[:i] + model[i + 1:]
                must_raise = has_letter(others, new)
                either = (not must_raise) and same_letter(target, new)
            elif op == "drop":
                if target is None:
                    try:
                        holder.drop("Nope__", inplace=inplace)
                        w.ob(f"{tag}:unknown_key_rejected", False)
                    except Exception:
                        w.ob(f"{tag}:unknown_key_rejected", True)
                    return
                key = target.letter if (si % 2 or cfg.get("same_names")) else target.name
                call = lambda: holder.drop(key, inplace=inplace)
                i = ids(model).index(id(target))
                want = model[:i] + model[i + 1:]
            try:
                res = call()
            except Exception as e:
                w.ob(f"{tag}:raises_only_on_clash", must_raise or either, info=f"{type(e).__name__}: {e}")
                check_list(w, f"{tag}:receiver_after_raise", holder, before)
                return
            w.ob(f"{tag}:clash_rejected", not must_raise)
            if must_raise:
                return
            if inplace:
                w.ob(f"{tag}:inplace_returns_none", res is None)
                check_list(w, f"{tag}:receiver_is_model", holder, want)
                model = want
            else:
                check_list(w, f"{tag}:result_is_model", res, want)
                check_list(w, f"{tag}:receiver_unchanged", holder, before)
                # independence: editing the result in place does not reach the receiver
                probe = probe_dim(env, w, want + before)
                snapshot = list(res.dim_list)
                res.append(probe, inplace=True)
                check_list(w, f"{tag}:receiver_after_inplace_edit_of_result", holder, before, absent=[probe])
                res.drop(probe.name, inplace=True)
                w.ob(f"{tag}:probe_removed", ids(res.dim_list) == ids(snapshot))
                cur, model = res, want
        return
    raise RuntimeError(h)

"""C15 -- operations never modify their inputs, and results are independent objects.

Snapshot by term identity: inputs hold symbols; after the call every input's value array holds the
identical terms and the identical Dimension objects (valid for all values; the explorer shows there
is no value-dependent path that behaves differently).  Write-through probe: a fresh symbol written
into a result (and an in-place edit of its dimension set) must not appear in any input, and vice versa.
"""
from __future__ import annotations

import numpy as np

from checks import ops

PROPERTY = "C15"
FUNCTIONS = ["FlodymArray.copy_dims", "FlodymArray.copy", "SubArrayHandler.to_flodym_array", "FlodymArray.__setitem__", "DimensionSet.copy_dim_list",
             "DimensionSet.copy", "FlodymArray.cast_values_to", "FlodymArray.full_like"]
ASSUMPTIONS = ["aliasing itself is a memory fact observed on every explored path (np.shares_memory is recorded next to the probe); the solver contributes the for-all-values / no-hidden-branch part"]
OUTSIDE = ["operations documented as in-place (inplace=True, set_values, [] assignment targets, compute())", "values arrays handed to a constructor (the property lists the stored dimension set, not the values)"]
VARIANTS = 'slice reads of view-backed arrays; Sankey plot; sparse export with a NaN entry; to_stock_type; reflected neutral operations'
BOUNDS = {"quick": dict(ops="every catalogue operation x every result x every input", dims="a2 b2 c3 t3"), "thorough": dict(ops="as quick", dims="as quick")}
for _t in BOUNDS.values():
    _t["variants_beyond_the_base_enumeration"] = VARIANTS
# few configurations, many code paths per configuration: every one is also run on the unstubbed float64 code (2.5)
SHADOW_ALWAYS = lambda cfg: True
OPTS = {"quick": dict(shadow_every=5, max_paths=200, max_depth=800), "thorough": dict(shadow_every=5, max_paths=200, max_depth=800)}


def configs(tier, seed):
    out = []
    for n in ops.catalogue():
        out.append(dict(h="op", op=n, key=f"op/{n}", name=n))
    for n in ops.system_ops():
        out.append(dict(h="op", op=n, key=f"op/{n}", name=n))
    return out


def shim_plan(cfg):
    from svx import shims

    return shims.default_plan(allclose="false")


def run(cfg, w):
    from flodym import FlodymArray, Dimension, DimensionSet

    E = ops.Env(w)
    cat = {**ops.catalogue(), **ops.system_ops()}
    fn, independent = cat[cfg["name"]]
    snap = E.snapshot()
    results = fn(E)
    E.check_unchanged("after_call", snap)
    probe_dim = Dimension(name="ProbeDim", letter="q", items=["q1"])
    for i, r in enumerate(results):
        if isinstance(r, DimensionSet):
            r.append(probe_dim, inplace=True)
            E.check_unchanged(f"result{i}:after_inplace_edit_of_returned_dimension_set", snap)
            continue
        if not isinstance(r, FlodymArray):
            continue
        shared = [n for n, a in E.arrays.items() if isinstance(r.values, np.ndarray) and np.shares_memory(r.values, a.values)]
        # the dimension set stored in any newly built array is independent of its sources
        r.dims.append(probe_dim, inplace=True)
        E.check_unchanged(f"result{i}:after_inplace_edit_of_result_dims", snap)
        r.dims.drop("q", inplace=True)
        if independent:
            w.ob(f"result{i}:no_shared_buffer", not shared, info=f"result shares memory with {shared}")
            if r.values.size:
                r.values[...] = w.real(f"probe_into_result{i}")
                E.check_unchanged(f"result{i}:after_writing_into_result", snap)
                before = r.values.copy()
                for n, a in E.arrays.items():
                    if a.values.size:
                        a.values[...] = w.real(f"probe_into_{n}_after_result{i}")
                for idx in np.ndindex(*np.shape(before)):
                    w.ob(f"result{i}:unaffected_by_later_writes_into_inputs{list(idx)}", w.same(r.values[idx], before[idx]))
                # restore the inputs for the next result
                for n, (vobj, vcopy, dl, dobj) in snap.items():
                    E.arrays[n].values[...] = vcopy

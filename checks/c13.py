"""C13 -- arrays always have the shape of their dimensions; failed calls change nothing.

Inductive step: the pre-state is an arbitrary valid array state (all values symbolic), one public
call with arguments from an enumerated space that includes deliberately ill-formed ones; afterwards
every reachable array satisfies the invariant, and a raising call left everything identical.
"""
from __future__ import annotations

import itertools

import numpy as np

from checks import ops

PROPERTY = "C13"
FUNCTIONS = ["FlodymArray.validate_values", "FlodymArray._check_value_format", "FlodymArray.set_values", "FlodymArray.copy_dims",
             "Stock.validate_stock_arrays", "Stock.validate_time_first_dim", "DynamicStockModel.init_lifetime_model", "DimensionSet.no_repeated_dimensions"]
ASSUMPTIONS = ["direct attribute overwrites and shape-changing apply() callbacks are outside the documented contract (excluded by the property)"]
OUTSIDE = ["dtype-dependent behaviour (object dtype throughout)", "histories longer than 3 calls (covered by the inductive step over arbitrary values, not by enumeration)"]
VARIANTS = 'same_names (two dimensions of different lengths sharing a name); may_fail (object / text ndarrays: whatever the library does, a call that raised changed nothing); the caller\'s DimensionSet read, edited in place, then used to build an array (dims_edited); stock dimensions whose items coincide only after a cast; one dimension asked for twice; DSM time-not-first; same-letter operands of other lengths; to_stock_type; wrong-shaped ndarrays into zero-dimensional arrays'
BOUNDS = {"quick": dict(calls="every catalogue operation, every ill-formed call, every ill-formed stock / lifetime-model construction", histories="every ordered pair (ill-formed call, catalogue operation) on one state (structured third)"),
          "thorough": dict(calls="as quick", histories="all pairs and a structured subset of triples")}
for _t in BOUNDS.values():
    _t["variants_beyond_the_base_enumeration"] = VARIANTS
# few configurations, many code paths per configuration: every one is also run on the unstubbed float64 code (2.5)
SHADOW_ALWAYS = lambda cfg: True
OPTS = {"quick": dict(shadow_every=10, max_paths=200, max_depth=800), "thorough": dict(shadow_every=40, max_paths=400, max_depth=1500)}


def configs(tier, seed):
    out = []
    for n in ops.catalogue():
        out.append(dict(h="good", op=n, key=f"good/{n}", name=n))
    for n in ops.system_ops():
        out.append(dict(h="good", op=n, key=f"good/{n}", name=n))
    for n in ops.bad_calls():
        out.append(dict(h="bad", op=n, key=f"bad/{n}", name=n))
    for n in ops.bad_stock_calls():
        out.append(dict(h="bad_stock", op=n, key=f"bad_stock/{n}", name=n))
    # the caller's own DimensionSet read (shape, total size, an array or a stock built on it), then edited in place,
    # then used to build an array: the array has the shape of the set as it is now
    # two dimensions of different lengths that share their NAME (origin / destination region): only letters are unique
    out.append(dict(h="same_names", op="same_names", key="same_names/o2_d3"))
    # calls the library may accept or refuse (an ndarray of the right shape holding objects, some of them not numbers):
    # whatever it does, a call that raised changed nothing
    for n in MAY_FAIL:
        out.append(dict(h="may_fail", op=n, key=f"may_fail/{n}", name=n))
    for read in ("shape", "total_size", "size", "array_built", "stock_built", "copy", "nothing"):
        for edit in DIMS_EDITS:
            out.append(dict(h="dims_edited", op=edit, key=f"dims_edited/read={read}/{edit}", read=read, edit=edit))
    bads = list(ops.bad_calls())
    goods = list(ops.catalogue())
    pairs = list(itertools.product(bads, goods))
    if tier == "quick":
        pairs = pairs[::3]
    for b, g in pairs:
        out.append(dict(h="history", op="hist2", key=f"history/{b}>{g}", seq=[("bad", b), ("good", g)]))
    if tier == "thorough":
        trip = list(itertools.product(bads, bads, goods))[::17]
        for b1, b2, g in trip:
            out.append(dict(h="history", op="hist3", key=f"history/{b1}>{b2}>{g}", seq=[("bad", b1), ("bad", b2), ("good", g)]))
    return out


MAY_FAIL = ["set_values_object_array_with_text", "setitem_ellipsis_object_array_with_text", "set_values_object_array_of_numbers", "set_values_text_array"]


def _same_names(cfg, w):
    from flodym import FlodymArray, Dimension, DimensionSet

    t = Dimension(name="Time", letter="t", items=[2000, 2001], dtype=int)
    o = Dimension(name="Region", letter="o", items=["EU", "US"])
    d = Dimension(name="Region", letter="d", items=["EU", "US", "CN"])
    ds = DimensionSet(dim_list=[t, o, d])
    shape = (2, 2, 3)
    w.ob("set:shape", tuple(ds.shape) == shape, info=str(tuple(ds.shape)))
    w.ob("set:sizes_by_letter", (ds.size("t"), ds.size("o"), ds.size("d")) == shape)
    w.ob("set:lookup_by_letter", ds["o"] is not None and list(ds["o"].items) == ["EU", "US"] and list(ds["d"].items) == ["EU", "US", "CN"])
    z = FlodymArray(dims=ds)
    w.ob("declared_array:zeros_have_the_shape_of_the_items", tuple(np.shape(z.values)) == shape, info=str(np.shape(z.values)))
    V = w.arr("v", shape)
    try:
        y = FlodymArray(dims=ds, values=V.copy())
        w.ob_arr_eq("array_of_item_shape_accepted:values", y.values, V)
        invariant(w, "array", y)
        s_ = y.sum_to(("d", "t"))
        w.ob("sum_to:shape", tuple(np.shape(s_.values)) == (3, 2))
        for k in range(3):
            for j in range(2):
                w.ob_eq(f"sum_to[{k},{j}]", s_.values[k, j], V[j, 0, k] + V[j, 1, k])
        r = y[{"d": "CN"}]
        w.ob("read_by_letter:shape", tuple(np.shape(r.values)) == (2, 2))
        w.ob_arr_eq("read_by_letter:values", r.values, V[:, :, 2])
    except Exception as ex:
        w.ob("array_of_item_shape_accepted", False, info=f"{type(ex).__name__}: {str(ex)[:150]}")
    try:
        FlodymArray(dims=ds, values=w.arr("wrong", (2, 3, 3)))
        w.ob("array_of_other_shape_rejected", False, info="accepted")
    except Exception:
        w.ob("array_of_other_shape_rejected", True)


def _may_fail(cfg, w):
    E = ops.Env(w)
    snap = E.snapshot()
    n = cfg["name"]
    obj = np.array([[1.5, "n/a"], [2.0, 3.0]], dtype=object)
    nums = np.array([[1.5, 2], [2.0, 3.0]], dtype=object)
    call = {"set_values_object_array_with_text": lambda: E.x.set_values(obj), "setitem_ellipsis_object_array_with_text": lambda: E.x.__setitem__(Ellipsis, obj),
            "set_values_object_array_of_numbers": lambda: E.x.set_values(nums), "set_values_text_array": lambda: E.x.set_values(np.array([["a", "b"], ["c", "d"]]))}[n]
    try:
        call()
    except Exception:
        w.ob("call_raised", True)
        E.check_unchanged("after_raise", snap)
        all_invariants(w, "after_raise", E)
        return
    w.ob("call_returned", True)
    w.ob("after_return:shape", isinstance(E.x.values, np.ndarray) and tuple(E.x.values.shape) == (2, 2))


DIMS_EDITS = ["append", "prepend", "insert", "expand_by", "extend", "drop", "replace_longer", "expand_by_then_drop"]


def _dims_edited(cfg, w):
    from flodym import FlodymArray, StockArray, Dimension, DimensionSet
    from flodym.stocks import SimpleFlowDrivenStock

    t = Dimension(name="Time", letter="t", items=[2000, 2001, 2003], dtype=int)
    a = Dimension(name="Alpha", letter="a", items=["a1", "a2"])
    b = Dimension(name="Beta", letter="b", items=["b1", "b2", "b3", "b4"])
    c = Dimension(name="Gamma", letter="c", items=["c1", "c2", "c3", "c4", "c5"])
    ds = DimensionSet(dim_list=[t, a])
    read = cfg["read"]
    if read == "shape":
        w.ob("shape_before", tuple(ds.shape) == (3, 2))
    elif read == "total_size":
        w.ob("total_size_before", int(ds.total_size) == 6)
    elif read == "size":
        w.ob("size_before", ds.size("a") == 2 and ds.size("Time") == 3)
    elif read == "array_built":
        x0 = FlodymArray(dims=ds, values=w.arr("x0", (3, 2)))
        w.ob("array_before", tuple(x0.values.shape) == (3, 2))
    elif read == "stock_built":
        SimpleFlowDrivenStock(dims=ds, inflow=StockArray(dims=ds, values=w.arr("in0", (3, 2))))
    elif read == "copy":
        ds.copy()
    e = cfg["edit"]
    {"append": lambda: ds.append(b, inplace=True), "prepend": lambda: ds.prepend(b, inplace=True), "insert": lambda: ds.insert(1, b, inplace=True),
     "expand_by": lambda: ds.expand_by([b, c], inplace=True), "extend": lambda: ds.extend([b], inplace=True), "drop": lambda: ds.drop("a", inplace=True),
     "replace_longer": lambda: ds.replace("a", c, inplace=True),
     "expand_by_then_drop": lambda: (ds.expand_by([b], inplace=True), ds.drop("t", inplace=True))}[e]()
    want = {"append": [t, a, b], "prepend": [b, t, a], "insert": [t, b, a], "expand_by": [t, a, b, c], "extend": [t, a, b], "drop": [t],
            "replace_longer": [t, c], "expand_by_then_drop": [a, b]}[e]
    shape = tuple(len(d.items) for d in want)
    w.ob("edited_set:letters", tuple(ds.letters) == tuple(d.letter for d in want))
    w.ob("edited_set:shape", tuple(ds.shape) == shape, info=f"{tuple(ds.shape)} want {shape}")
    w.ob("edited_set:total_size", int(ds.total_size) == int(np.prod(shape)))
    w.ob("edited_set:sizes", all(ds.size(d.letter) == len(d.items) for d in want))
    w.ob("copy_of_edited_set:shape", tuple(ds.copy().shape) == shape)
    z = FlodymArray(dims=ds)
    w.ob("array_on_edited_set:zeros_have_the_shape_of_the_items", tuple(np.shape(z.values)) == shape, info=f"{np.shape(z.values)} want {shape}")
    V = w.arr("v", shape)
    try:
        y = FlodymArray(dims=ds, values=V.copy())
        w.ob("array_on_edited_set:right_shape_accepted", tuple(np.shape(y.values)) == shape)
        w.ob_arr_eq("array_on_edited_set:values", y.values, V)
    except Exception as ex:
        w.ob("array_on_edited_set:right_shape_accepted", False, info=f"{type(ex).__name__}: {str(ex)[:120]}")
    try:
        FlodymArray(dims=ds, values=w.arr("stale", (3, 2)))
        w.ob("array_on_edited_set:old_shape_rejected", False, info="accepted")
    except Exception:
        w.ob("array_on_edited_set:old_shape_rejected", True)


def shim_plan(cfg):
    from svx import shims

    return shims.default_plan(allclose="false")


def invariant(w, tag, a):
    from flodym import FlodymArray, DimensionSet

    if isinstance(a, DimensionSet):
        w.ob(f"{tag}:letters_distinct", len(set(a.letters)) == len(a.letters))
        return
    if not isinstance(a, FlodymArray):
        return
    ok = isinstance(a.values, np.ndarray) and tuple(a.values.shape) == tuple(a.dims.shape)
    w.ob(f"{tag}:values_shape_equals_dims_shape", ok, info=f"values {getattr(a.values, 'shape', type(a.values))} dims {a.dims.shape}")
    # ... and the shape the set reports is the lengths of its dimensions' item lists
    lens_ = tuple(len(d.items) for d in a.dims.dim_list)
    w.ob(f"{tag}:dims_shape_is_item_counts", tuple(a.dims.shape) == lens_, info=f"dims.shape {tuple(a.dims.shape)} items {lens_}")
    w.ob(f"{tag}:letters_distinct", len(set(a.dims.letters)) == len(a.dims.letters))
    w.ob(f"{tag}:shape_property", tuple(a.shape) == tuple(a.dims.shape) and int(a.size) == int(np.prod(a.dims.shape or (1,))) if a.dims.ndim else True)


def all_invariants(w, tag, E, results=()):
    for n, a in E.arrays.items():
        invariant(w, f"{tag}:{n}", a)
    for i, r in enumerate(results):
        invariant(w, f"{tag}:result{i}", r)


def run(cfg, w):
    if cfg["h"] == "dims_edited":
        return _dims_edited(cfg, w)
    if cfg["h"] == "same_names":
        return _same_names(cfg, w)
    if cfg["h"] == "may_fail":
        return _may_fail(cfg, w)
    E = ops.Env(w)
    cat = {**ops.catalogue(), **ops.system_ops()}
    bad = {**ops.bad_calls(), **ops.bad_stock_calls()}
    steps = cfg.get("seq") or [("good" if cfg["h"] == "good" else "bad", cfg["name"])]
    w.ob_eq("anchor", E.vals["x"][0, 0] - E.vals["x"][0, 0], 0)
    for i, (kind, name) in enumerate(steps):
        snap = E.snapshot()
        tag = f"step{i}:{name}"
        if kind == "good":
            fn, _ind = cat[name]
            try:
                results = fn(E)
            except Exception as e:
                w.ob(f"{tag}:well_formed_call_does_not_raise", False, info=f"{type(e).__name__}: {str(e)[:200]}")
                return
            all_invariants(w, tag, E, results)
        else:
            try:
                r = bad[name](E)
            except (NameError, ImportError, SyntaxError) as e:
                # a slip in the harness itself must not pass for flodym rejecting the call
                raise RuntimeError(f"harness error in ill-formed call {name}: {type(e).__name__}: {e}")
            except Exception as e:
                import traceback

                last = traceback.extract_tb(e.__traceback__)[-1].filename
                if "/checks/" in last and not isinstance(e, (ValueError, KeyError, TypeError)):
                    raise RuntimeError(f"harness error in ill-formed call {name}: {type(e).__name__}: {e}")
                w.ob(f"{tag}:ill_formed_call_rejected", True)
                E.check_unchanged(tag, snap)
                all_invariants(w, tag, E)
                continue
            w.ob(f"{tag}:ill_formed_call_rejected", False, info="accepted")
            all_invariants(w, tag, E, [r] if r is not None else [])

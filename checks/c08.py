"""C08 -- survival tables are valid and equal the declared lifetime distribution."""
from __future__ import annotations

import itertools
from fractions import Fraction

import numpy as np

from checks import dsm

PROPERTY = "C08"
FUNCTIONS = ["LifetimeModel.compute_survival_factor", "LifetimeModel._remaining_ages", "LifetimeModel.get_quad_points_and_weights",
             "LifetimeModel.cast_any_to_np_array", "LifetimeModel.compute_outflow_pdf", "LifetimeModel._tile", "NormalLifetime._survival_by_year_id",
             "FoldedNormalLifetime._survival_by_year_id", "LogNormalLifetime._survival_by_year_id", "WeibullLifetime._survival_by_year_id",
             "FixedLifetime._survival_by_year_id", "UnevenTimeDim.compute_t_bounds"]
ASSUMPTIONS = ["scipy's sf kernels compute the named distributions (trusted, compiled); they enter as uninterpreted functions with the ground "
               "axioms 0 <= sf <= 1 and sf non-increasing in its first argument", "parameters positive", "time items strictly increasing",
               "log-normal transform: only exp(log x) = x for x > 0 is used about exp/log/sqrt"]
OUTSIDE = ["numerical accuracy of scipy's kernels", "n_pts_per_interval outside 1..10", "float rounding of ages and weights", "n > 4"]
VARIANTS = 'inflow_at start / end also with the multi-point rules; a model evaluated after another model; set_prms with keywords in reversed order; parameters as plain numpy arrays broadcast against (t, r): (r,), (t,r), (t,1), (1,r)'
BOUNDS = {"quick": dict(n="3 (unit, const grids), 4 (uneven grids)", classes=5, inflow_at=["start", "middle", "end"], n_pts="1..10 (all ten rules)", param_shapes="scalar, (r), (t), (t,r), (r,t)", grids=dsm.GRIDS),
          "thorough": dict(n=[3, 4], classes=5, inflow_at=["start", "middle", "end"], n_pts="1..10", param_shapes="as quick + (r,p) orders", grids=dsm.GRIDS)}
for _t in BOUNDS.values():
    _t["variants_beyond_the_base_enumeration"] = VARIANTS
OPTS = {"quick": dict(shadow_every=10, timeout_ms=20000, max_paths=100), "thorough": dict(shadow_every=40, timeout_ms=60000, max_paths=100)}
REAL = {"FixedLifetime": ["mean"], "NormalLifetime": ["mean", "std"], "FoldedNormalLifetime": ["mean", "std"],
        "LogNormalLifetime": ["mean", "std"], "WeibullLifetime": ["weibull_shape", "weibull_scale"]}
DEF = {"mean": 3.0, "std": 1.0, "weibull_shape": 1.7, "weibull_scale": 3.5}
PSHAPES = ["scalar", "r", "t", "tr", "rt"]


def configs(tier, seed):
    out = []
    ns = [3] if tier == "quick" else [3, 4]
    for lt in REAL:
        for grid in dsm.GRIDS:
            # with 3 items the mirrored end intervals make every interval (y2-y0)/2 long: an "uneven" grid needs n >= 4
            for n in (ns if grid != "uneven" else sorted(set(ns) | {4}) if tier == "thorough" else [4]):
                # (inflow_at is documented as ignored by the multi-point rules: start / end with 2..10 points must give the same table)
                ignored = [(ia, k) for k in ((2, 3, 6) if tier == "quick" else range(2, 11)) for ia in ("start", "end")]
                for ia, npts in [("start", 1), ("middle", 1), ("end", 1)] + [("middle", k) for k in range(2, 11)] + ignored:
                    shapes = PSHAPES if ((npts <= 2 or tier == "thorough") and ia == "middle" or npts == 1) else (["scalar", "rt"] if npts <= 4 and ia == "middle" else ["scalar"] if npts % 2 else ["rt"])
                    if grid != "uneven" and tier == "quick" and npts > 3:
                        continue
                    for ps in shapes:
                        out.append(dict(h="table", op=lt, key=f"table/{lt}/grid={grid}/n={n}/{ia}{npts}/prm={ps}", lt=lt, grid=grid, n=n, inflow_at=ia, npts=npts, ps=ps))
                    if grid == "uneven" and npts == 1 and ia == "middle" and len(REAL[lt]) == 2:
                        for ps in ("scalar", "rt"):
                            out.append(dict(h="table", op=lt, key=f"table/{lt}/grid={grid}/n={n}/{ia}{npts}/prm={ps}/via_set_prms_reversed_keywords", lt=lt, grid=grid, n=n, inflow_at=ia, npts=npts, ps=ps, via_set_prms=True))
                    if npts == 1 and ia == "middle" and (grid == "uneven" or tier == "thorough"):
                        for ps in ("plain_r", "plain_tr", "plain_t1", "plain_1r"):
                            for via in (False, True):
                                if via and (len(REAL[lt]) != 2 or ps not in ("plain_t1", "plain_r")):
                                    continue
                                out.append(dict(h="table", op=lt, key=f"table/{lt}/grid={grid}/n={n}/{ia}{npts}/prm={ps}" + ("/via_set_prms_reversed_keywords" if via else ""), lt=lt, grid=grid, n=n, inflow_at=ia, npts=npts, ps=ps, **({"via_set_prms": True} if via else {})))
                    if grid == "uneven" and npts in (1, 3) and ia == "middle":
                        # the same table after another model of the same class was evaluated in this process
                        # (other parameters, another grid with the same end points and length): no state may leak
                        out.append(dict(h="table", op=lt, key=f"table/{lt}/grid={grid}/n={n}/{ia}{npts}/prm=rt/after_other_model", lt=lt, grid=grid, n=n, inflow_at=ia, npts=npts, ps="rt", after_other=True))
    for grid in dsm.GRIDS:
        for n in ns + ([4] if tier == "quick" else [5]):
            out.append(dict(h="pdf", op="pdf", key=f"pdf/grid={grid}/n={n}", grid=grid, n=n, lt="Any"))
    for k in range(2, 11):
        out.append(dict(h="quadrature", op="gl", key=f"quadrature/rule={k}", k=k, lt="-"))
    out.append(dict(h="lemmas", op="lemmas", key="lemmas/lognormal+foldnorm", lt="-"))
    out.append(dict(h="bad_settings", op="bad", key="bad_settings", lt="-"))
    return out


def shim_plan(cfg):
    from svx import shims

    return shims.default_plan(allclose="false")


def _dist_sf(w, lt, x, p):
    """survival function of the *documented* parameterisation (uninterpreted symbol / real scipy)"""
    if lt == "FixedLifetime":
        return w.ite(w.lt(x, p["mean"]), 1, 0)
    if w.sym:
        from svx import sym

        if lt == "NormalLifetime":
            return sym.SymReal(sym.uf("norm_sf", 3)(sym.term(x), sym.term(p["mean"]), sym.term(p["std"])))
        if lt == "FoldedNormalLifetime":
            c = sym._sr(p["mean"]) / sym._sr(p["std"])
            return sym.SymReal(sym.uf("foldnorm_sf", 4)(sym.term(x), c.t, sym.term(0), sym.term(p["std"])))
        if lt == "LogNormalLifetime":
            m, s = sym._sr(p["mean"]), sym._sr(p["std"])
            sigma = (1 + (s * s) / (m * m)).log().sqrt()
            scale = ((m * m) / (m * m + s * s).sqrt()).log().exp()
            return sym.SymReal(sym.uf("lognorm_sf", 4)(sym.term(x), sigma.t, sym.term(0), scale.t))
        if lt == "WeibullLifetime":
            return sym.SymReal(sym.uf("weibull_sf", 4)(sym.term(x), sym.term(p["weibull_shape"]), sym.term(0), sym.term(p["weibull_scale"])))
    import scipy.stats as st

    if lt == "NormalLifetime":
        return float(st.norm.sf(x, loc=p["mean"], scale=p["std"]))
    if lt == "FoldedNormalLifetime":
        return float(st.foldnorm.sf(x, p["mean"] / p["std"], loc=0, scale=p["std"]))
    if lt == "LogNormalLifetime":
        m, s = p["mean"], p["std"]
        sigma2 = np.log(1 + s * s / (m * m))
        mu = np.log(m) - sigma2 / 2  # the log-normal with mean m and std s
        return float(st.lognorm.sf(x, s=np.sqrt(sigma2), loc=0, scale=np.exp(mu)))
    if lt == "WeibullLifetime":
        return float(st.weibull_min.sf(x, c=p["weibull_shape"], loc=0, scale=p["weibull_scale"]))


def _params(w, cfg, dims, n):
    """parameters as scalar / FlodymArray over a dims subset in some order; returns (ctor kwargs, lookup(c, r))"""
    from flodym import FlodymArray

    ps = cfg["ps"]
    kw, look = {}, {}
    for name in REAL[cfg["lt"]]:
        if ps == "scalar":
            v = w.real("prm_" + name, default=DEF[name])
            w.assume(w.gt(v, 0))
            kw[name] = v
            look[name] = lambda c, r, v=v: v
        elif ps.startswith("plain_"):
            # a plain numpy array (no FlodymArray): numpy broadcasting against the model's (t, r) shape -- a per-label
            # vector (r,), a full table (t, r), per-cohort column (t, 1), per-label row (1, r)
            shape = {"plain_r": (2,), "plain_tr": (n, 2), "plain_t1": (n, 1), "plain_1r": (1, 2)}[ps]
            A = w.arr("prm_" + name, shape, default=lambda idx, name=name: DEF[name] * (1 + 0.21 * sum((i + 1) * (k + 1) for k, i in enumerate(idx))))
            for x in A.flat:
                w.assume(w.gt(x, 0))
            kw[name] = A.copy()
            look[name] = lambda c, r, A=A, ps=ps: {"plain_r": lambda: A[r], "plain_tr": lambda: A[c, r], "plain_t1": lambda: A[c, 0], "plain_1r": lambda: A[0, r]}[ps]()
        else:
            shape = tuple(n if l == "t" else 2 for l in ps)
            A = w.arr("prm_" + name, shape, default=lambda idx, name=name: DEF[name] * (1 + 0.21 * sum((i + 1) * (k + 1) for k, i in enumerate(idx))))
            for x in A.flat:
                w.assume(w.gt(x, 0))
            kw[name] = FlodymArray(dims=dims.get_subset(tuple(ps)), values=A.copy())
            look[name] = lambda c, r, A=A, ps=ps: A[tuple(c if l == "t" else r for l in ps)]
    return kw, look


def _axioms(w, c):
    """ground instances of 0 <= sf <= 1 and monotonicity for the applications that occur"""
    import z3

    apps = list(getattr(c, "sf_apps", {}).values())
    for dist, app, ts in apps:
        c.assume(z3.And(app >= 0, app <= 1))
    for (d1, a1, t1), (d2, a2, t2) in itertools.combinations(apps, 2):
        if d1 == d2 and all(x.eq(y) for x, y in zip(t1[1:], t2[1:])):
            c.assume(z3.Implies(t1[0] <= t2[0], a1 >= a2))
            c.assume(z3.Implies(t2[0] <= t1[0], a2 >= a1))


def run(cfg, w):
    import flodym.lifetime_models as lm
    from flodym.gauss_lobatto import gl_nodes, gl_weights

    h = cfg["h"]
    if h == "table":
        n, lt = cfg["n"], cfg["lt"]
        y, dt, b = dsm.make_grid(w, n, cfg["grid"])
        if cfg.get("after_other"):
            d0 = dsm.make_dims(y, {"r": 2})
            kw0 = {}
            for name in REAL[lt]:
                kw0[name] = w.real("other_" + name, default=DEF[name] * 1.7)
                w.assume(w.gt(kw0[name], 0))
            m0 = getattr(lm, lt)(dims=d0, inflow_at=cfg["inflow_at"], n_pts_per_interval=cfg["npts"], **kw0)
            m0.sf, m0.pdf
            y = [y[0]] + [w.real(f"z{i}", default=float(2000 + dsm._UNEVEN[i]) + 0.5) for i in range(1, n - 1)] + [y[-1]]
            for i in range(n - 1):
                w.assume(w.gt(y[i + 1] - y[i], 0))
            dt, b = dsm.oracle_bounds(y)
        dims = dsm.make_dims(y, {"r": 2})
        kw, look = _params(w, cfg, dims, n)
        if cfg.get("via_set_prms"):
            # parameters handed over afterwards, by keyword, last-declared first (keywords bind by name, not by position)
            model = getattr(lm, lt)(dims=dims, inflow_at=cfg["inflow_at"], n_pts_per_interval=cfg["npts"])
            model.set_prms(**dict(reversed(list(kw.items()))))
        else:
            model = getattr(lm, lt)(dims=dims, inflow_at=cfg["inflow_at"], n_pts_per_interval=cfg["npts"], **kw)
        sf = model.sf
        w.ob("sf_shape", np.shape(sf) == (n, n, 2))
        if np.shape(sf) != (n, n, 2):
            return
        k = cfg["npts"]
        if k > 1:
            # the rule mapped from [-1,1] to [0,1]; the mapping itself is evaluated in float64 as a user would
            # (its rounding, <= 1 ulp per node, is outside the claim; the quadrature harness bounds it by 1e-15)
            etas = [Fraction((x + 1) / 2) if w.sym else (x + 1) / 2 for x in gl_nodes[k]]
            ws = [Fraction(x / 2) if w.sym else x / 2 for x in gl_weights[k]]
        else:
            etas, ws = [{"start": 0, "middle": Fraction(1, 2) if w.sym else 0.5, "end": 1}[cfg["inflow_at"]]], [1]
        wsum = sum(ws)
        chain_prev = {}
        for r in range(2):
            for c in range(n):
                p = {name: look[name](c, r) for name in look}
                for t in range(n):
                    if t < c:
                        w.ob_eq(f"zero_for_later_cohort[{t},{c},{r}]", sf[t, c, r], 0)
                        continue
                    want = 0
                    for ki, (eta, wt) in enumerate(zip(etas, ws)):
                        one_minus = Fraction(1.0 - float(eta)) if w.sym else 1.0 - eta  # float64 complement, as evaluated by a user
                        inst = eta * b[c + 1] + one_minus * b[c]
                        age = b[t + 1] - inst
                        app = _dist_sf(w, lt, age, p)
                        if w.sym and lt != "FixedLifetime":
                            # ground instances of the kernels' contract for exactly the applications of the declared
                            # distribution: range, and monotonicity along the age chain of this (cohort, label, node)
                            import z3 as _z3
                            from svx import sym as _sym

                            w.ctx.assume(_z3.And(app.t >= 0, app.t <= 1))
                            prev = chain_prev.get((c, r, ki))
                            if prev is not None:
                                w.ctx.assume(_z3.Implies(prev[0] <= _sym.term(age), prev[1] >= app.t))
                            chain_prev[(c, r, ki)] = (_sym.term(age), app.t)
                        want = want + wt * app
                    # proved first and handed to the path as a lemma: range and monotonicity of flodym's table then
                    # follow from the contract instances above
                    w.lemma_eq(f"equals_declared_distribution[{t},{c},{r}]", sf[t, c, r], want)
                    w.ob(f"in_unit_range[{t},{c},{r}]", w.and_(w.ge(sf[t, c, r], 0), w.le(sf[t, c, r], wsum)))
                    if t > c:
                        w.ob(f"non_increasing_with_age[{t},{c},{r}]", w.le(sf[t, c, r], sf[t - 1, c, r]))
        w.ob("weights_sum_to_one", abs(float(wsum) - 1.0) <= 2.0 ** -50)
        # outflow probabilities from the real table
        pdf = model.pdf
        for r in range(2):
            for c in range(n):
                acc = 0
                for t in range(n):
                    if t < c:
                        w.ob_eq(f"pdf_zero_for_later_cohort[{t},{c},{r}]", pdf[t, c, r], 0)
                        continue
                    acc = acc + pdf[t, c, r]
                    w.ob_eq(f"survival_plus_outflow_is_one[{t},{c},{r}]", sf[t, c, r] + acc, 1)
                    # the literal weights sum to 1 only up to 2^-50: the diagonal share 1 - sf can undershoot by that much
                    slack = min(0, 1 - wsum)
                    w.ob(f"pdf_non_negative[{t},{c},{r}]", w.ge(pdf[t, c, r], slack))
        return
    if h == "pdf":
        n = cfg["n"]
        y, dt, b = dsm.make_grid(w, n, cfg["grid"])
        dims = dsm.make_dims(y, {"r": 2})
        tab = dsm.sf_table(w, n, (2,), constrain=("range", "mono"))
        model = dsm.AnyLifetime(dims=dims, table=tab)
        sf, pdf = model.sf, model.pdf
        for r in range(2):
            for c in range(n):
                acc = 0
                for t in range(n):
                    if t < c:
                        w.ob_eq(f"sf_zero_for_later_cohort[{t},{c},{r}]", sf[t, c, r], 0)
                        w.ob_eq(f"pdf_zero_for_later_cohort[{t},{c},{r}]", pdf[t, c, r], 0)
                        continue
                    w.ob(f"sf_is_the_models_table[{t},{c},{r}]", w.same(sf[t, c, r], tab[t, c, r]))
                    acc = acc + pdf[t, c, r]
                    w.ob_eq(f"survival_plus_outflow_is_one[{t},{c},{r}]", sf[t, c, r] + acc, 1)
                    w.ob(f"pdf_non_negative[{t},{c},{r}]", w.ge(pdf[t, c, r], 0))
        return
    if h == "quadrature":
        k = cfg["k"]
        xs = [Fraction(x) for x in gl_nodes[k]]
        ws = [Fraction(x) for x in gl_weights[k]]
        w.ob("lengths", len(xs) == k and len(ws) == k)
        w.ob("end_points", xs[0] == -1 and xs[-1] == 1)
        w.ob("sorted", all(xs[i] < xs[i + 1] for i in range(k - 1)))
        w.ob("symmetric_nodes", all(abs(xs[i] + xs[k - 1 - i]) <= Fraction(1, 10**15) for i in range(k)))
        w.ob("symmetric_weights", all(abs(ws[i] - ws[k - 1 - i]) <= Fraction(1, 10**15) for i in range(k)))
        w.ob("positive_weights", all(x > 0 for x in ws))
        w.ob("weights_sum_to_two", abs(sum(ws) - 2) <= Fraction(1, 10**15))
        for p in range(0, 2 * k - 2):
            exact = Fraction(0) if p % 2 else Fraction(2, p + 1)
            w.ob(f"integrates_monomial_{p}_exactly", abs(sum(wt * x**p for wt, x in zip(ws, xs)) - exact) <= Fraction(1, 10**14))
        # interior nodes are roots of P'_{k-1}; weights 2 / (k (k-1) P_{k-1}(x)^2)
        P = [[Fraction(1)], [Fraction(0), Fraction(1)]]
        for m in range(1, k):
            a, bb = P[m], P[m - 1]
            nxt = [Fraction(0)] * (m + 2)
            for i, cf in enumerate(a):
                nxt[i + 1] += Fraction(2 * m + 1, m + 1) * cf
            for i, cf in enumerate(bb):
                nxt[i] -= Fraction(m, m + 1) * cf
            P.append(nxt)
        pk = P[k - 1]
        ev = lambda poly, x: sum(cf * x**i for i, cf in enumerate(poly))
        dpk = [i * cf for i, cf in enumerate(pk)][1:]
        w.ob("interior_nodes_are_roots_of_legendre_derivative", all(abs(ev(dpk, x)) <= Fraction(1, 10**12) for x in xs[1:-1]))
        w.ob("weights_match_formula", all(abs(wt - Fraction(2, k * (k - 1)) / ev(pk, x) ** 2) <= Fraction(1, 10**13) for wt, x in zip(ws, xs)))
        # and the mapping flodym applies: nodes to [0,1], weights halved
        d = dsm.make_dims([2000, 2001, 2002], {})
        qp, qw = lm.NormalLifetime(dims=d, n_pts_per_interval=k, mean=1.0, std=1.0).get_quad_points_and_weights()
        w.ob("mapped_nodes", all(abs(Fraction(a) - (x + 1) / 2) <= Fraction(1, 10**15) for a, x in zip(qp, xs)) and len(qp) == k)
        w.ob("mapped_weights", all(abs(Fraction(a) - wt / 2) <= Fraction(1, 10**15) for a, wt in zip(qw, ws)) and len(qw) == k)
        w.ob_eq("anchor", w.real("one", default=1) * 0 + 1, 1)
        return
    if h == "lemmas":
        # parameter transforms as QF_NRA lemmas, independent of array code
        if not w.sym:
            w.ob("lemmas_are_symbolic_only", True)
            return
        import z3
        from svx import sym

        m, s, q, r_ = z3.Reals("lm_m lm_s lm_q lm_r")
        c = w.ctx
        c.assume(z3.And(m > 0, s > 0, q > 0, q * q == m * m + s * s, r_ > 0))
        E = m * m / q  # e^mu, what the code feeds to exp(log(.))
        V = 1 + s * s / (m * m)  # e^{sigma^2}
        c.assume(r_ * r_ == V)
        w.ob("lognormal_mean", sym.SymBool(E * r_ == m, nl=True))
        w.ob("lognormal_variance", sym.SymBool(E * E * V * (V - 1) == s * s, nl=True))
        x, mu, sg = z3.Reals("fn_x fn_mu fn_sg")
        c.assume(sg > 0)
        w.ob("folded_normal_argument", sym.SymBool(x / sg - mu / sg == (x - mu) / sg, nl=True))
        return
    if h == "bad_settings":
        d = dsm.make_dims([2000, 2001, 2002], {})
        for name, call in [("inflow_at_invalid", lambda: lm.NormalLifetime(dims=d, inflow_at="centre", mean=1.0, std=1.0)),
                           ("n_pts_11", lambda: lm.NormalLifetime(dims=d, n_pts_per_interval=11, mean=1.0, std=1.0).sf),
                           ("prms_unset", lambda: lm.NormalLifetime(dims=d).sf),
                           ("negative_mean", lambda: lm.NormalLifetime(dims=d, mean=-1.0, std=1.0).sf)]:
            try:
                call()
                w.ob(f"{name}_rejected", False)
            except Exception:
                w.ob(f"{name}_rejected", True)
        w.ob_eq("anchor", w.real("one", default=1) * 0 + 1, 1)
        return
    raise RuntimeError(h)

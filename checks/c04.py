"""C04 -- results do not depend on the storage order of dimensions (metamorphic, decided symbolically).

Every operation is run once with each participating array in canonical storage order and once per
permutation, the *same* symbols attached to the same labels; results must agree entry by entry
under the same labels, and the result's own order must follow the documented rule.
"""
from __future__ import annotations

import itertools

import numpy as np

from svx.configs import make_dim, make_dimset, subsets, label_tuples, lens_key, NAMES

PROPERTY = "C04"
FUNCTIONS = ["FlodymArray.cast_values_to", "FlodymArray.sum_values_to", "FlodymArray.__mul__", "FlodymArray.__setitem__", "SubArrayHandler._init_ids",
             "LifetimeModel.cast_any_to_np_array", "DataFrameToFlodymDataConverter._sort_columns", "FlodymArray.to_df", "flodym_array_stack", "FlodymArray.split"]
ASSUMPTIONS = ["scipy kernels uninterpreted (lifetime-parameter harness)", "DataFrame round trip: cell values pairwise different", "DataFrame round trip: dimensions with string items (value/item confusion is C11's subject)"]
OUTSIDE = ["more than 4 dimensions", "lengths above 3"]
VARIANTS = 'df_shared_items: two dimensions over one item set, every frame form into every storage order; letter-headed frames; sums and shares over several dimensions named against the storage order'
BOUNDS = {"quick": dict(universe="abc (+d for unary ops)", lengths="(2,2,2,2) and (2,3,2,1)", permutations="all (<= 24 per array, all pairs for binary operations on <= 3 dims)"),
          "thorough": dict(universe="abcd", lengths="(2,2,2,2) (2,3,2,1) (3,2,3,2)", permutations="all; binary operations with up to 4 and 3 dims")}
for _t in BOUNDS.values():
    _t["variants_beyond_the_base_enumeration"] = VARIANTS
OPTS = {"quick": dict(shadow_every=30, max_paths=50), "thorough": dict(shadow_every=100, max_paths=50)}
BINOPS = ["add", "sub", "mul", "div", "min", "max", "pow"]
UNOPS = ["sum_to", "sum_over", "cast_to", "shares", "cumsum", "read", "split", "neg_abs_sign_scalar", "read_derived"]


def _lenpats(tier):
    pats = [dict(a=2, b=2, c=2, d=2), dict(a=2, b=3, c=2, d=1)]
    if tier == "thorough":
        pats.append(dict(a=3, b=2, c=3, d=2))
    return pats


def configs(tier, seed):
    out = []
    Ub = "abc" if tier == "quick" else "abcd"
    for lens in _lenpats(tier):
        lk = lens_key(lens)
        for sx in subsets(Ub):
            for sy in subsets(Ub):
                if len(sx) + len(sy) > (6 if tier == "quick" else 7) or (len(sx) == 4 and len(sy) == 4):
                    continue
                if len(sx) < 2 and len(sy) < 2:
                    continue  # a single storage order only
                for op in BINOPS:
                    if op == "pow" and any(l not in sx for l in sy):
                        continue
                    out.append(dict(h="binop", op=op, key=f"binop/{op}/x={sx or '-'}/y={sy or '-'}/{lk}", sx=sx, sy=sy, lens=lens))
        for sx in subsets("abcd", min_size=2):
            for op in UNOPS:
                out.append(dict(h="unop", op=op, key=f"unop/{op}/x={sx}/{lk}", sx=sx, lens=lens))
            if len(sx) >= 3:
                # the same reads with ascending integer items (years) in the dimension that is selected by a single item
                out.append(dict(h="unop", op="read", key=f"unop/read/x={sx}/{lk}/int_items", sx=sx, lens=lens, int_items=True))
        for st in subsets("abc", min_size=1):
            for ss in subsets("abcd"):
                if all(l in ss for l in st) and len(ss) <= len(st) + 1 and len(ss) >= 2:
                    out.append(dict(h="assign", op="assign", key=f"assign/t={st}/s={ss}/{lk}", st=st, ss=ss, lens=lens))
        for sx in subsets("abc", min_size=2):
            out.append(dict(h="df", op="df", key=f"df/x={sx}/{lk}", sx=sx, lens=lens))
            out.append(dict(h="stack", op="stack", key=f"stack/x={sx}/{lk}", sx=sx, lens=lens))
    # two dimensions with one and the same item set (origin / destination): a frame in which each is identified by a name,
    # a letter or the header of the wide columns imports alike into every storage order of the target
    for n in (2, 3):
        for third in (False, True):
            out.append(dict(h="df_shared_items", op="dfshared", key=f"df_shared_items/n={n}" + ("/third_dimension" if third else ""), n=n, third=third, lens={}))
    for lt in ["NormalLifetime", "WeibullLifetime", "FixedLifetime"]:
        for ps in ["t", "r", "p", "tr", "tp", "rp", "trp"]:
            out.append(dict(h="lifetime_prm", op=lt, key=f"lifetime_prm/{lt}/prm={ps}", lt=lt, ps=ps, lens={}))
    return out


def shim_plan(cfg):
    from svx import shims

    return shims.default_plan(allclose="false")


def _arr(w, dims, lens, canon, order, X):
    """FlodymArray stored in `order` holding the canonical symbols X (indexed in canonical order) by label"""
    from flodym import FlodymArray

    perm = [canon.index(l) for l in order]
    # a transposed *view* of a private copy: permuted storage orders are also non-contiguous in memory, as they are
    # when a user transposes data (memory-layout-dependent slips stay visible)
    vals = np.transpose(X.copy(), perm) if len(canon) else X.copy()
    if sum(i * p_ for i, p_ in enumerate(perm)) % 2:
        vals = vals.copy()  # ... and every other permutation as a contiguous copy
    return FlodymArray(dims=make_dimset(order, lens, dims), values=vals, name="arr")


def _by_label(res):
    """dict label-tuple (sorted by letter) -> entry"""
    letters = list(res.dims.letters)
    out = {}
    for idx in np.ndindex(*np.shape(res.values)):
        lab = tuple(sorted((l, res.dims[l].items[i]) for l, i in zip(letters, idx)))
        out[lab] = res.values[idx]
    return out


def _cmp(w, tag, ref, res, want_letters=None):
    if want_letters is not None:
        w.ob(f"{tag}:result_order", tuple(res.dims.letters) == tuple(want_letters), info=f"{res.dims.letters} want {tuple(want_letters)}")
    a, b = _by_label(ref), _by_label(res)
    w.ob(f"{tag}:same_label_set", set(a) == set(b))
    if set(a) != set(b):
        return
    for lab in a:
        w.ob_eq(f"{tag}:{[x[1] for x in lab]}", b[lab], a[lab])


def run(cfg, w):
    from flodym import FlodymArray, Dimension, DimensionSet
    from flodym.flodym_array_helper import flodym_array_stack

    h = cfg["h"]
    lens = cfg["lens"]
    dims = {l: make_dim(l, n) for l, n in lens.items()}
    if cfg.get("int_items"):
        l_ = cfg["sx"][0]
        dims[l_] = make_dim(l_, lens[l_], items=[2000 + i for i in range(lens[l_])], dtype=int)
    if h == "binop":
        sx, sy, op = cfg["sx"], cfg["sy"], cfg["op"]
        X = w.arr("x", tuple(lens[l] for l in sx))
        Y = w.arr("y", tuple(lens[l] for l in sy))
        f = {"add": lambda a, b: a + b, "sub": lambda a, b: a - b, "mul": lambda a, b: a * b, "div": lambda a, b: a / b,
             "min": lambda a, b: a.minimum(b), "max": lambda a, b: a.maximum(b), "pow": lambda a, b: a**b}[op]
        ref = f(_arr(w, dims, lens, sx, sx, X), _arr(w, dims, lens, sy, sy, Y))
        for px in itertools.permutations(sx):
            for py in itertools.permutations(sy):
                if px == tuple(sx) and py == tuple(sy):
                    continue
                res = f(_arr(w, dims, lens, sx, px, X), _arr(w, dims, lens, sy, py, Y))
                if op in ("add", "sub", "min", "max"):
                    want = [l for l in px if l in py]
                elif op in ("mul", "div"):
                    want = list(px) + [l for l in py if l not in px]
                else:
                    want = list(px)
                _cmp(w, f"{''.join(px) or '-'}|{''.join(py) or '-'}", ref, res, want)
        return
    if h == "unop":
        sx, op = cfg["sx"], cfg["op"]
        X = w.arr("x", tuple(lens[l] for l in sx))
        k = w.real("k")

        def apply(a, order):
            outs = {}
            if op == "sum_to":
                for R in itertools.permutations(sx, max(0, len(sx) - 1)):
                    outs["".join(R) or "-"] = (a.sum_to(R), list(R))
            elif op == "sum_over":
                outs[sx[0]] = (a.sum_over((sx[0],)), [l for l in order if l != sx[0]])
                outs["names"] = (a.sum_over(tuple(NAMES[l] for l in sx[-1:])), [l for l in order if l != sx[-1]])
                if len(sx) >= 2:
                    for pair in itertools.permutations(sx, 2):
                        outs["two_" + "".join(pair)] = (a.sum_over(pair), [l for l in order if l not in pair])
                if len(sx) >= 3:
                    outs["three_rev"] = (a.sum_over(tuple(reversed(sx[:3]))), [l for l in order if l not in sx[:3]])
            elif op == "cast_to":
                T = [l for l in "dcba" if l in sx or l == "d" or l == "a"]
                outs["T"] = (a.cast_to(make_dimset(T, lens, dims)), T)
            elif op == "shares":
                outs[sx[0]] = (a.get_shares_over((sx[0],)), list(order))
                outs["all"] = (a.get_shares_over(tuple(sx)), list(order))
                if len(sx) >= 3:
                    outs["two_rev"] = (a.get_shares_over((sx[1], sx[0])), list(order))
            elif op == "cumsum":
                for l in sx:
                    outs[l] = (a.cumsum(l), list(order))
            elif op == "read":
                l0 = sx[0]
                outs["item_dictl"] = (a[{l0: dims[l0].items[-1]}], [l for l in order if l != l0])
                outs["item_bare"] = (a[dims[l0].items[0]], [l for l in order if l != l0])
                sub = Dimension(name="SubDim", letter="u", items=dims[sx[-1]].items[::-1][: max(1, lens[sx[-1]] - 1)])
                outs["subset"] = (a[{sx[-1]: sub}], ["u" if l == sx[-1] else l for l in order])
                if len(sx) >= 2:
                    outs["two_items_tuple"] = (a[dims[sx[1]].items[0], dims[sx[0]].items[-1]], [l for l in order if l not in sx[:2]])
                    outs["item_and_subset"] = (a[{sx[0]: dims[sx[0]].items[0], sx[-1]: sub}] if sx[0] != sx[-1] else a[{sx[-1]: sub}],
                                               ["u" if l == sx[-1] else l for l in order if l != sx[0] or sx[0] == sx[-1]])
                if len(sx) >= 3:
                    # a subset selection on an inner dimension followed by a single item on the last one
                    sub1 = Dimension(name="SubInner", letter="v", items=dims[sx[1]].items[::-1][: max(1, lens[sx[1]] - 1)])
                    outs["inner_subset_then_item"] = (a[{sx[1]: sub1, sx[-1]: dims[sx[-1]].items[0]}], ["v" if l == sx[1] else l for l in order if l != sx[-1]])
                outs["ellipsis"] = (a[...], list(order))
            elif op == "read_derived":
                # the source is read by key first, then an array whose dimensions sit at other positions is derived from it
                # (a requested order, a sum, arithmetic with an operand lacking a dimension), and that one is read by key
                l0 = sx[0]
                a[{l0: dims[l0].items[0]}]
                a[dims[sx[-1]].items[-1]]
                for R in itertools.permutations(sx, max(1, len(sx) - 1)):
                    y = a.sum_to(R)
                    for l in (R[0], R[-1]):
                        outs[f"sum_to_{''.join(R)}_read_{l}"] = (y[{l: dims[l].items[-1]}], [m_ for m_ in R if m_ != l])
                y = a.sum_over((sx[0],))
                if len(sx) >= 2:
                    outs["sum_over_first_read_last"] = (y[{sx[-1]: dims[sx[-1]].items[0]}], [m_ for m_ in order if m_ not in (sx[0], sx[-1])])
                    z = a - a.sum_to(tuple(sx[1:]))
                    outs["minus_partial_total_read"] = (z[{sx[1]: dims[sx[1]].items[-1]}], [m_ for m_ in order if m_ in sx[1:] and m_ != sx[1]])
            elif op == "split":
                parts = a.split(sx[0])
                for item, p in parts.items():
                    outs[f"split_{item}"] = (p, [l for l in order if l != sx[0]])
            elif op == "neg_abs_sign_scalar":
                outs["neg"] = (-a, list(order))
                outs["abs"] = (abs(a), list(order))
                outs["sign"] = (a.sign(), list(order))
                outs["ksub"] = (k - a, list(order))
                outs["kdiv"] = (k / a, list(order))
                outs["mulk"] = (a * k, list(order))
            return outs

        ref = apply(_arr(w, dims, lens, sx, sx, X), sx)
        for px in itertools.permutations(sx):
            if px == tuple(sx):
                continue
            got = apply(_arr(w, dims, lens, sx, px, X), px)
            for name in ref:
                _cmp(w, f"{''.join(px)}:{name}", ref[name][0], got[name][0], got[name][1])
        return
    if h == "assign":
        st, ss = cfg["st"], cfg["ss"]
        T = w.arr("t", tuple(lens[l] for l in st))
        S = w.arr("s", tuple(lens[l] for l in ss))
        l0 = st[0]

        def apply(pt, ps):
            outs = {}
            # (list keys: every item of the first dimension in reversed order; the last dimension's items but the first)
            keys = [("whole", Ellipsis), ("item", {l0: dims[l0].items[-1]}), ("list_all_reversed", {l0: list(dims[l0].items)[::-1]})]
            if lens[st[-1]] >= 2:
                keys.append(("list_partial", {st[-1]: list(dims[st[-1]].items)[1:][::-1]}))
            for name, key in keys:
                t = _arr(w, dims, lens, st, pt, T)
                s = _arr(w, dims, lens, ss, ps, S)
                t[key] = s
                outs[name] = t
            return outs

        ref = apply(st, ss)
        for pt in itertools.permutations(st):
            for ps in itertools.permutations(ss):
                if pt == tuple(st) and ps == tuple(ss):
                    continue
                got = apply(pt, ps)
                for name in ref:
                    _cmp(w, f"{''.join(pt)}<-{''.join(ps) or '-'}:{name}", ref[name], got[name], list(pt))
        return
    if h == "df":
        sx = cfg["sx"]
        X = w.arr("x", tuple(lens[l] for l in sx))
        w.assume_distinct(X)
        ref = _arr(w, dims, lens, sx, sx, X)
        for px in itertools.permutations(sx):
            a = _arr(w, dims, lens, sx, px, X)
            for index in (True, False):
                for d2c in [None] + ([px[-1], NAMES[px[0]]] if len(px) > 1 else []):
                    df = a.to_df(index=index, dim_to_columns=d2c)
                    # the same frame with its dimensions headed by letter instead of by name
                    n2l = {NAMES[l]: l for l in sx}
                    dfl = df.rename_axis(index=lambda n: n2l.get(n, n)) if index else df.rename(columns=n2l)
                    if d2c is None and len(px) >= 2:
                        # long frames in which ONE dimension is recognisable by its items only (an unnamed text index level, an
                        # "Unnamed: 0" column) and stands before the named ones / after them
                        for anon in (px[0], px[-1]):
                            for place in ("first", "last"):
                                long = a.to_df(index=False)
                                cols = [c for c in long.columns if c not in (NAMES[anon], "value")]
                                cols = ([NAMES[anon]] + cols if place == "first" else cols + [NAMES[anon]]) + ["value"]
                                dfa = long[cols].rename(columns={NAMES[anon]: "Unnamed: 0"})
                                if index:
                                    dfa = dfa.set_index([c for c in dfa.columns if c != "value"])
                                    dfa.index = dfa.index.set_names([None if n_ == "Unnamed: 0" else n_ for n_ in dfa.index.names])
                                for qx in itertools.permutations(sx):
                                    back = FlodymArray.from_df(dims=make_dimset(qx, lens, dims), df=dfa.copy())
                                    _cmp(w, f"{''.join(px)}->df(index={int(index)},items_only={anon},{place})->{''.join(qx)}", ref, back, list(qx))
                    for qx in itertools.permutations(sx):
                        back = FlodymArray.from_df(dims=make_dimset(qx, lens, dims), df=df)
                        _cmp(w, f"{''.join(px)}->df(index={int(index)},cols={d2c})->{''.join(qx)}", ref, back, list(qx))
                        back = FlodymArray.from_df(dims=make_dimset(qx, lens, dims), df=dfl)
                        _cmp(w, f"{''.join(px)}->df(index={int(index)},cols={d2c},letters)->{''.join(qx)}", ref, back, list(qx))
        return
    if h == "df_shared_items":
        n = cfg["n"]
        items = ["A", "B", "C"][:n]
        D = {"o": Dimension(name="Origin", letter="o", items=list(items)), "d": Dimension(name="Destination", letter="d", items=list(items))}
        if cfg["third"]:
            D["e"] = Dimension(name="Element", letter="e", items=["Fe", "Cu"])
        canon = list(D)
        X = w.arr("x", tuple(len(D[l].items) for l in canon))
        w.assume_distinct(X)
        ref = FlodymArray(dims=DimensionSet(dim_list=[D[l] for l in canon]), values=X.copy())
        for wide in (None, "o", "d"):
            for index in (True, False):
                for head in ("names", "letters"):
                    df = ref.to_df(index=index, dim_to_columns=D[wide].name if wide else None)
                    if head == "letters":
                        n2l = {D[l].name: l for l in canon}
                        df = df.rename_axis(index=lambda k: n2l.get(k, k)) if index else df.rename(columns=n2l)
                    outcomes = {}
                    for qx in itertools.permutations(canon):
                        tag = f"wide={wide}/index={int(index)}/{head}->{''.join(qx)}"
                        try:
                            back = FlodymArray.from_df(dims=DimensionSet(dim_list=[D[l] for l in qx]), df=df.copy())
                        except Exception as e:
                            outcomes["".join(qx)] = f"{type(e).__name__}"
                            continue
                        outcomes["".join(qx)] = "imported"
                        _cmp(w, tag, ref, back, list(qx))
                    w.ob(f"wide={wide}/index={int(index)}/{head}:same_outcome_for_every_storage_order", len(set(outcomes.values())) == 1, info=str(outcomes))
        return
    if h == "stack":
        sx = cfg["sx"]
        new = Dimension(name="Stacked", letter="z", items=["z1", "z2"])
        X1 = w.arr("x1", tuple(lens[l] for l in sx))
        X2 = w.arr("x2", tuple(lens[l] for l in sx))
        ref = flodym_array_stack([_arr(w, dims, lens, sx, sx, X1), _arr(w, dims, lens, sx, sx, X2)], new)
        for p1 in itertools.permutations(sx):
            for p2 in itertools.permutations(sx):
                res = flodym_array_stack([_arr(w, dims, lens, sx, p1, X1), _arr(w, dims, lens, sx, p2, X2)], new)
                _cmp(w, f"stack {''.join(p1)},{''.join(p2)}", ref, res, list(p1) + ["z"])
                parts = res.split("z")
                _cmp(w, f"split_back {''.join(p1)},{''.join(p2)}:z1", _arr(w, dims, lens, sx, sx, X1), parts["z1"], list(p1))
                _cmp(w, f"split_back {''.join(p1)},{''.join(p2)}:z2", _arr(w, dims, lens, sx, sx, X2), parts["z2"], list(p1))
        return
    if h == "lifetime_prm":
        import flodym.lifetime_models as lm
        from checks import dsm

        n = 3
        y, dt, b = dsm.make_grid(w, n, "uneven")
        mdims = dsm.make_dims(y, {"r": 2, "p": 2})
        ps = cfg["ps"]
        names = {"NormalLifetime": ["mean", "std"], "WeibullLifetime": ["weibull_shape", "weibull_scale"], "FixedLifetime": ["mean"]}[cfg["lt"]]
        P = {}
        for nm in names:
            A = w.arr("prm_" + nm, tuple(n if l == "t" else 2 for l in ps), default=lambda idx, nm=nm: 1.5 + 0.4 * sum((i + 1) * (k + 2) for k, i in enumerate(idx)))
            for x in A.flat:
                w.assume(w.gt(x, 0))
            P[nm] = A
        tables = []
        for perm in itertools.permutations(ps):
            kw = {}
            for nm in names:
                pidx = [ps.index(l) for l in perm]
                kw[nm] = FlodymArray(dims=mdims.get_subset(tuple(perm)), values=np.transpose(P[nm], pidx).copy())
            m = getattr(lm, cfg["lt"])(dims=mdims, **kw)
            tables.append(("".join(perm), m.sf, m.pdf))
        for name, sf, pdf in tables[1:]:
            for idx in np.ndindex(*np.shape(sf)):
                w.ob_eq(f"sf[{name}]{list(idx)}", sf[idx], tables[0][1][idx])
                w.ob_eq(f"pdf[{name}]{list(idx)}", pdf[idx], tables[0][2][idx])
        # and against the by-label meaning: entry (t, c, r, p) uses the parameter at (c, r, p)
        sf0 = tables[0][1]
        m1 = {}
        for r in range(2):
            for p_ in range(2):
                kw = {nm: FlodymArray(dims=mdims.get_subset(("t",)), values=np.array([P[nm][tuple({"t": c, "r": r, "p": p_}[l] for l in ps)] for c in range(n)], dtype=object if w.sym else float))
                      for nm in names}
                d1 = dsm.make_dims(y, {})
                one = getattr(lm, cfg["lt"])(dims=d1, **kw).sf
                for t in range(n):
                    for c in range(n):
                        w.ob_eq(f"per_label_meaning[{t},{c},{r},{p_}]", sf0[t, c, r, p_], one[t, c])
        return
    raise RuntimeError(h)

"""C17 -- recomputing a stock reflects its current inputs only (no stale cached tables)."""
from __future__ import annotations

import itertools

import numpy as np

from checks import dsm

PROPERTY = "C17"
FUNCTIONS = ["LifetimeModel.sf", "LifetimeModel.pdf", "StandardDeviationLifetimeModel.set_prms", "FixedLifetime.set_prms", "WeibullLifetime.set_prms",
             "InflowDrivenDSM.compute", "StockDrivenDSM.compute", "LifetimeModel.cast_any_to_np_array"]
ASSUMPTIONS = ["scipy kernels are functions of their arguments (uninterpreted; congruence only)", "lifetime parameters positive",
               "np.allclose follows numpy's definition; in the longest histories of each tier it answers False (compared arrays assumed not within tolerance)", "scipy.linalg.solve_triangular satisfies its documented contract"]
OUTSIDE = ["histories longer than the bound", "n > 3", "direct writes to private attributes"]
OPS = ["driver", "prms", "compute", "read_sf", "read_pdf"]
VARIANTS = "one lifetime object shared by two stocks; multi-point rule / inflow_at=start on the lifetime model; consecutive array parameters; models built without parameters; np.allclose by numpy's definition except in the longest histories; dtype shadow; two lapack models on one lifetime object; set_prms again with the held values"
BOUNDS = {"quick": dict(n=3, history="every sequence over {set driver, set_prms, compute, read sf, read pdf} of length <= 4 that ends in compute",
                        classes="idsm, sdsm manual, sdsm lapack x 5 lifetime classes", system_loop="2 and 3 iterations"),
          "thorough": dict(n=3, history="length <= 5", classes="as quick", system_loop="2 to 4 iterations")}
for _t in BOUNDS.values():
    _t["variants_beyond_the_base_enumeration"] = VARIANTS
# dtype shadow: per-cohort parameter arrays first in an integer dtype, then replaced by non-whole ones (differential concrete run)
DTYPE_SHADOW = lambda cfg: "always" if (cfg["h"] == "history" and cfg.get("first") in ("array", "arrays") and "prms" in cfg["seq"]) else False
OPTS = {"quick": dict(shadow_every=40, timeout_ms=20000, max_paths=200), "thorough": dict(shadow_every=200, timeout_ms=60000, max_paths=200)}
REAL = {"FixedLifetime": ["mean"], "NormalLifetime": ["mean", "std"], "FoldedNormalLifetime": ["mean", "std"],
        "LogNormalLifetime": ["mean", "std"], "WeibullLifetime": ["weibull_shape", "weibull_scale"]}
DEF = {"mean": 3.0, "std": 1.0, "weibull_shape": 1.7, "weibull_scale": 3.5}
KINDS = ["idsm", "sdsm_manual", "sdsm_lapack"]
LONGEST = [4]


def configs(tier, seed):
    out = []
    L = 4 if tier == "quick" else 5
    LONGEST[0] = L
    seqs = []
    for k in range(0, L):
        for pre in itertools.product(OPS, repeat=k):
            seq = list(pre) + ["compute"]
            if "compute" not in pre and not any(o in pre for o in ("read_sf", "read_pdf")) and k > 0:
                # nothing was cached before the final compute: every such history is the fresh case itself
                if k > 1:
                    continue
            seqs.append(seq)
    for kind in KINDS:
        for lt in REAL:
            if kind != "idsm" and lt == "FixedLifetime":
                continue
            for seq in seqs:
                out.append(dict(h="history", op=kind + lt, key=f"history/{kind}/{lt}/" + ">".join(seq), kind=kind, lt=lt, seq=seq, n=3))
            # the same histories on an evenly spaced grid, with set_prms alternating between scalars and per-cohort arrays
            for seq in seqs:
                if "prms" in seq and len(seq) <= 3:
                    for first in ("scalar", "array", "arrays"):
                        out.append(dict(h="history", op=kind + lt + "u", key=f"history/{kind}/{lt}/unit/{first}/" + ">".join(seq), kind=kind, lt=lt, seq=seq, n=3, grid="unit", first=first))
                if seq == ["prms", "compute"]:
                    # parameters set twice before anything is computed (no table is cached, but the arrays the model holds are)
                    out.append(dict(h="history", op=kind + lt + "u", key=f"history/{kind}/{lt}/unit/arrays/prms>prms>compute", kind=kind, lt=lt, seq=["prms", "prms", "compute"], n=3, grid="unit", first="arrays"))
                    # ... on a model that was built without parameters (as stocks made from definitions are)
                    for sq in (["prms", "prms", "compute"], ["prms", "compute", "prms", "compute"]):
                        out.append(dict(h="history", op=kind + lt + "u", key=f"history/{kind}/{lt}/unit/arrays/bare_model/" + ">".join(sq), kind=kind, lt=lt, seq=sq, n=3, grid="unit", first="arrays", bare=True))
                if "prms" in seq and len(seq) <= 3:
                    # ... and with a multi-point rule / another inflow instant (settings that live on the lifetime model object)
                    # (inflow-driven only: the settings act inside the lifetime model, and a 3-point table inside the
                    #  stock-driven quotients costs half a minute per configuration)
                    for ia, npts in ((("middle", 3), ("start", 1)) if kind == "idsm" else ()):
                        out.append(dict(h="history", op=kind + lt + "q", key=f"history/{kind}/{lt}/{ia}{npts}/" + ">".join(seq), kind=kind, lt=lt, seq=seq, n=3, grid="uneven", inflow_at=ia, npts=npts))
    # set_prms called again with the values the model already holds (a loop that passes every parameter on every round)
    for kind in KINDS:
        for lt in REAL:
            if kind != "idsm" and lt == "FixedLifetime":
                continue
            for sq in (["compute", "prms", "prms_again", "compute"], ["read_sf", "prms", "prms_again", "compute"], ["compute", "prms_again", "prms", "prms_again", "compute"],
                       ["prms_again", "compute", "prms", "compute"]):
                if kind != "idsm" and len(sq) > 4:
                    continue
                out.append(dict(h="history", op=kind + lt + "r", key=f"history/{kind}/{lt}/repeat/" + ">".join(sq), kind=kind, lt=lt, seq=sq, n=3))
    # a compute that raises (a parameter the distribution refuses) leaves nothing behind: computing again gives the same refusal,
    # and after valid parameters are set the results are those of a fresh stock
    for kind in KINDS:
        for lt, bad in (("NormalLifetime", "mean"), ("FoldedNormalLifetime", "mean"), ("WeibullLifetime", "weibull_shape")):
            out.append(dict(h="failed_compute", op=kind + lt, key=f"failed_compute/{kind}/{lt}/negative_{bad}", kind=kind, lt=lt, bad=bad, n=3))
    # a set_prms call that raises (its last parameter has a shape that cannot be cast) changes nothing: the model holds the
    # parameters it held before, and computing gives what those parameters give
    for kind in ("idsm", "sdsm_manual"):
        for lt in ("NormalLifetime", "LogNormalLifetime", "WeibullLifetime"):
            out.append(dict(h="failed_set_prms", op=kind + lt, key=f"failed_set_prms/{kind}/{lt}", kind=kind, lt=lt, n=3))
            if kind == "idsm" or lt == "FixedLifetime":
                for order in (("r", "p"), ("p", "r")):
                    for ctor in ("first", "scalars"):
                        out.append(dict(h="same_numbers_other_dimension", op=kind + lt + "dim", key=f"same_numbers_other_dimension/{kind}/{lt}/{order[0]}_then_{order[1]}/constructed_with={ctor}", kind=kind, lt=lt, n=3, order=list(order), ctor=ctor))
    for lt in REAL:
        for order in ("ab", "ba"):
            out.append(dict(h="definition_system", op=lt, key=f"definition_system/{lt}/set_prms_order={order}", kind="idsm", lt=lt, n=3, order=order))
    # one lifetime model object held by two stocks: new parameters set through the shared object reach both
    for lt in REAL:
        for kb in ("idsm", "sdsm_manual", "sdsm_lapack"):
            if kb != "idsm" and lt == "FixedLifetime":
                continue
            for via in ("caller", "stock_a"):
                out.append(dict(h="shared_lifetime", op=lt + kb, key=f"shared_lifetime/{lt}/idsm+{kb}/set_prms_via={via}", kind="idsm", kb=kb, lt=lt, via=via, n=3))
                if kb == "sdsm_lapack" and via == "caller" and lt in (("NormalLifetime",) if tier == "quick" else ("NormalLifetime", "WeibullLifetime")):
                    # two stock-driven models of the same solver on one lifetime object
                    out.append(dict(h="shared_lifetime", op=lt + kb + "2", key=f"shared_lifetime/{lt}/{kb}+{kb}/set_prms_via={via}", kind="idsm", ka=kb, kb=kb, lt=lt, via=via, n=3))
    for lt in REAL:
        for iters in ([2, 3] if tier == "quick" else [2, 3, 4]):
            out.append(dict(h="system_loop", op=lt, key=f"system_loop/{lt}/iters={iters}", kind="idsm", lt=lt, iters=iters, n=3))
    return out


def shim_plan(cfg):
    from svx import shims

    # np.allclose follows numpy's definition (a solver-decided fork per distinct call) except in the longest histories of
    # each tier, where it answers False (= the compared arrays are assumed not to be within its tolerance)
    longest = cfg["h"] == "history" and len(cfg["seq"]) >= LONGEST[0]
    return shims.default_plan(allclose="false" if longest else "model")


def ctx_setup(cfg, c):
    c.purify_div = True


def _prms(w, lt, tag, kind="scalar", dims=None):
    out = {}
    for name in REAL[lt]:
        if kind == "scalar":
            out[name] = w.real(f"{name}_{tag}", default=DEF[name] * (1 + 0.37 * (len(tag) + ord(tag[-1]) % 5)))
            w.assume(w.gt(out[name], 0))
        else:
            from flodym import FlodymArray

            n = dims["t"].len
            A = w.arr(f"{name}_{tag}", (n,), default=lambda idx, name=name: DEF[name] * (1 + 0.45 * idx[0] + 0.1 * len(tag)))
            if getattr(w, "int_arrays", False):
                # dtype shadow: lifetimes first given in whole years (integer dtype), later ones not whole
                # (the constructor's and the first set_prms' arrays are whole numbers, every later one is not)
                A = np.abs(A) + 1 if tag in ("p0", "p1") else np.abs(A).astype(np.float64) + 1.375
            for x in A.flat:
                w.assume(w.gt(x, 0))
            out[name] = FlodymArray(dims=dims.get_subset(("t",)), values=A)
    return out


def _results(st):
    return dict(stock=st.stock.values, inflow=st.inflow.values, outflow=st.outflow.values,
                stock_by_cohort=st.get_stock_by_cohort(), outflow_by_cohort=st.get_outflow_by_cohort())


_SETTINGS = {}


def _fresh(kind, dims, lt, prm, driver):
    import flodym.lifetime_models as lm

    model = getattr(lm, lt)(dims=dims, **_SETTINGS, **prm)
    st = dsm.build_stock(kind, dims, lifetime=model, **({"inflow": driver} if kind == "idsm" else {"stock": driver}))
    st.compute()
    return _results(st)


def _compare(w, tag, got, want):
    for k in want:
        a, b = np.asarray(got[k]), np.asarray(want[k])
        if a.shape != b.shape:
            w.ob(f"{tag}:{k}:shape", False)
            continue
        for idx in np.ndindex(*a.shape):
            w.ob_eq(f"{tag}:{k}{list(idx)}", a[idx], b[idx])


def run(cfg, w):
    import flodym.lifetime_models as lm

    n, kind, lt = cfg["n"], cfg["kind"], cfg["lt"]
    _SETTINGS.clear()
    if cfg.get("npts"):
        _SETTINGS.update(inflow_at=cfg["inflow_at"], n_pts_per_interval=cfg["npts"])
    y, dt, b = dsm.make_grid(w, n, cfg.get("grid", "uneven"))
    dims = dsm.make_dims(y, {"r": 2})
    shape = dims.shape
    if cfg["h"] == "definition_system":
        return _definition_system(cfg, w, dims)
    if cfg["h"] == "same_numbers_other_dimension":
        # parameters with the very same numbers, first along one label dimension, then along another of the same length
        # (lifetimes by region, then the same two lifetimes by product): the model follows the dimension they belong to
        from flodym import FlodymArray

        dims = dsm.make_dims(y, {"r": 2, "p": 2})
        shape = dims.shape
        driver = w.arr("d0", shape)
        vals = {}
        for name in REAL[lt]:
            A = w.arr(f"{name}_v", (2,), default=lambda idx, name=name: DEF[name] * (1 + 0.6 * idx[0]))
            for x_ in A.flat:
                w.assume(w.gt(x_, 0))
            vals[name] = A
        along = lambda l: {name: FlodymArray(dims=dims.get_subset((l,)), values=vals[name].copy()) for name in REAL[lt]}
        first, second = cfg["order"]
        model = getattr(lm, lt)(dims=dims, **(_prms(w, lt, "p0") if cfg.get("ctor") == "scalars" else along(first)))
        st = dsm.build_stock(kind, dims, lifetime=model, **({"inflow": driver} if kind == "idsm" else {"stock": driver}))
        if cfg.get("ctor") == "scalars":
            st.lifetime_model.set_prms(**along(first))
        st.compute()
        st.lifetime_model.set_prms(**along(second))
        st.compute()
        _compare(w, f"after_set_prms_along_{second}", _results(st), _fresh(kind, dims, lt, along(second), driver))
        return
    if cfg["h"] == "failed_set_prms":
        P0, P1 = _prms(w, lt, "p0"), _prms(w, lt, "p1")
        driver = w.arr("d0", shape)
        model = getattr(lm, lt)(dims=dims, **P0)
        st = dsm.build_stock(kind, dims, lifetime=model, **({"inflow": driver} if kind == "idsm" else {"stock": driver}))
        st.compute()
        held = {k_: np.array(getattr(st.lifetime_model, k_), dtype=object).copy() for k_ in REAL[lt]}
        bad = dict(P1)
        bad[REAL[lt][-1]] = np.ones((n + 4,))  # cannot be cast to the model's shape
        try:
            st.lifetime_model.set_prms(**bad)
            w.ob("set_prms_refuses_the_uncastable_parameter", False)
        except Exception:
            w.ob("set_prms_refuses_the_uncastable_parameter", True)
        for k_ in REAL[lt]:
            now = np.array(getattr(st.lifetime_model, k_), dtype=object)
            ok = now.shape == held[k_].shape
            w.ob(f"failed_set_prms_leaves_{k_}_shape", ok)
            if ok:
                for idx in np.ndindex(*now.shape):
                    w.ob(f"failed_set_prms_leaves_{k_}{list(idx)}", w.same(now[idx], held[k_][idx]))
        st.compute()
        _compare(w, "compute_after_failed_set_prms", _results(st), _fresh(kind, dims, lt, P0, driver))
        return
    if cfg["h"] == "failed_compute":
        P_bad = _prms(w, lt, "p0")
        neg = w.real("refused_value", default=-1.5)
        w.assume(w.lt(neg, 0))
        P_bad[cfg["bad"]] = neg
        driver = w.arr("d0", shape)
        model = getattr(lm, lt)(dims=dims, **P_bad)
        st = dsm.build_stock(kind, dims, lifetime=model, **({"inflow": driver} if kind == "idsm" else {"stock": driver}))
        outcomes = []
        # (the second compute only on the inflow-driven model: a stock-driven one would divide by the entries of whatever
        #  table a failed compute may have left behind)
        for k in range(2 if kind == "idsm" else 1):
            try:
                st.compute()
                outcomes.append("returned")
            except ValueError as e:
                outcomes.append("refused")
        w.ob("first_compute_refuses_the_parameter", outcomes[0] == "refused", info=str(outcomes))
        if len(outcomes) > 1:
            w.ob("second_compute_gives_the_same_refusal", outcomes[1] == outcomes[0], info=f"{outcomes}: a compute that raised left a table behind")
        w.ob("no_table_left_behind_by_the_failed_compute", st.lifetime_model._sf is None and st.lifetime_model._pdf is None)
        P_ok = _prms(w, lt, "p1")
        st.lifetime_model.set_prms(**P_ok)
        st.compute()
        _compare(w, "after_valid_parameters", _results(st), _fresh(kind, dims, lt, P_ok, driver))
        return
    if cfg["h"] == "shared_lifetime":
        P0, P1 = _prms(w, lt, "p0"), _prms(w, lt, "p1")
        L = getattr(lm, lt)(dims=dims, **P0)
        kb = cfg["kb"]
        dA, dB = w.arr("da", shape), w.arr("db", shape)
        ka = cfg.get("ka", "idsm")
        A = dsm.build_stock(ka, dims, lifetime=L, **({"inflow": dA} if ka == "idsm" else {"stock": dA}), name="a")
        B = dsm.build_stock(kb, dims, lifetime=L, **({"inflow": dB} if kb == "idsm" else {"stock": dB}), name="b")
        A.compute()
        _compare(w, "a_first", _results(A), _fresh(ka, dims, lt, P0, dA))
        if ka != "idsm":
            B.compute()
            _compare(w, "b_first", _results(B), _fresh(kb, dims, lt, P0, dB))
        (L if cfg["via"] == "caller" else A.lifetime_model).set_prms(**P1)
        B.compute()
        _compare(w, "b_after_new_parameters", _results(B), _fresh(kb, dims, lt, P1, dB))
        A.compute()
        _compare(w, "a_after_new_parameters", _results(A), _fresh(ka, dims, lt, P1, dA))
        return
    if cfg["h"] == "history":
        kinds_cycle = {"scalar": ["scalar", "array"], "array": ["array", "scalar"], "arrays": ["array"]}.get(cfg.get("first"), ["scalar"])
        nset = [0]

        def next_kind():
            k = kinds_cycle[nset[0] % len(kinds_cycle)]
            nset[0] += 1
            return k

        prm = _prms(w, lt, "p0", next_kind(), dims)
        driver = w.arr("d0", shape)
        model = getattr(lm, lt)(dims=dims, **_SETTINGS, **({} if cfg.get("bare") else prm))
        st = dsm.build_stock(kind, dims, lifetime=model, **({"inflow": driver} if kind == "idsm" else {"stock": driver}))
        drv_arr = st.inflow if kind == "idsm" else st.stock
        for i, op in enumerate(cfg["seq"]):
            if op == "driver":
                driver = w.arr(f"d{i + 1}", shape)
                drv_arr.set_values(driver.copy())
            elif op == "prms":
                prm = _prms(w, lt, f"p{i + 1}", next_kind(), dims)
                st.lifetime_model.set_prms(**prm)
            elif op == "prms_again":
                st.lifetime_model.set_prms(**prm)  # the very values it holds
            elif op == "read_sf":
                st.lifetime_model.sf
            elif op == "read_pdf":
                st.lifetime_model.pdf
            elif op == "compute":
                st.compute()
                _compare(w, f"step{i}", _results(st), _fresh(kind, dims, lt, prm, driver))
                st.compute()
                _compare(w, f"step{i}:compute_twice", _results(st), _fresh(kind, dims, lt, prm, driver))
        return
    # ---- a system whose compute() is run repeatedly (scenario / sensitivity loop)
    from flodym import MFASystem, Parameter, Flow, Process, DimensionSet, FlodymArray

    class LoopMFA(MFASystem):
        def compute(self):
            self.stocks["use"].inflow[...] = self.flows["sysenv => use"] * self.parameters["scale"]
            self.stocks["use"].lifetime_model.set_prms(**{k: self.parameters[k] for k in REAL[lt]})
            self.stocks["use"].compute()
            self.flows["use => sysenv"][...] = self.stocks["use"].outflow

    procs = {"sysenv": Process(name="sysenv", id=0), "use": Process(name="use", id=1)}
    flows = {"sysenv => use": Flow(dims=dims, from_process=procs["sysenv"], to_process=procs["use"], name="sysenv => use", values=w.arr("f", shape)),
             "use => sysenv": Flow(dims=dims, from_process=procs["use"], to_process=procs["sysenv"], name="use => sysenv")}
    rdims = dims.get_subset(("r",))
    params = {"scale": Parameter(dims=rdims, values=w.arr("scale_0", (2,)), name="scale")}
    for name in REAL[lt]:
        v = w.arr(f"{name}_0", (2,), default=lambda idx, name=name: DEF[name] * (1 + 0.3 * idx[0]))
        for x in v.flat:
            w.assume(w.gt(x, 0))
        params[name] = Parameter(dims=rdims, values=v, name=name)
    stock = dsm.build_stock("idsm", dims, lifetime=getattr(lm, lt)(dims=dims), name="use")
    stock.process = procs["use"]
    mfa = LoopMFA(dims=dims, parameters=params, processes=procs, flows=flows, stocks={"use": stock})
    for it in range(cfg["iters"]):
        if it > 0:
            for name in REAL[lt] + ["scale"]:
                v = w.arr(f"{name}_{it}", (2,), default=lambda idx, name=name, it=it: DEF.get(name, 1.0) * (1 + 0.3 * idx[0] + 0.55 * it))
                if name != "scale":
                    for x in v.flat:
                        w.assume(w.gt(x, 0))
                mfa.parameters[name].set_values(v)
        mfa.compute()
        inflow_now = (mfa.flows["sysenv => use"] * mfa.parameters["scale"]).values
        prm_now = {k: mfa.parameters[k] for k in REAL[lt]}
        want = _fresh("idsm", dims, lt, prm_now, inflow_now)
        _compare(w, f"iter{it}", _results(mfa.stocks["use"]), want)
        w.ob_arr_eq(f"iter{it}:outflow_flow", mfa.flows["use => sysenv"].values, want["outflow"])


def _definition_system(cfg, w, dims):
    """two dynamic stocks of the same class and dimensions built from definitions: each keeps its own lifetime"""
    import flodym.lifetime_models as lm
    from flodym import StockDefinition, make_empty_stocks, Process
    from flodym.stocks import InflowDrivenDSM

    lt = cfg["lt"]
    procs = {"sysenv": Process(name="sysenv", id=0), "use": Process(name="use", id=1), "reuse": Process(name="reuse", id=2)}
    defs = [StockDefinition(name="a", process="use", dim_letters=("t", "r"), subclass=InflowDrivenDSM, lifetime_model_class=getattr(lm, lt)),
            StockDefinition(name="b", process="reuse", dim_letters=("t", "r"), subclass=InflowDrivenDSM, lifetime_model_class=getattr(lm, lt))]
    stocks = make_empty_stocks(stock_definitions=defs, processes=procs, dims=dims)
    w.ob("one_stock_per_definition", list(stocks) == ["a", "b"])
    P = {k: _prms(w, lt, "p" + k) for k in "ab"}
    D = {k: w.arr("d" + k, dims.shape) for k in "ab"}
    for k in cfg["order"]:
        stocks[k].lifetime_model.set_prms(**P[k])
    for k in "ab":
        stocks[k].inflow.set_values(D[k].copy())
    for k in "ab":
        stocks[k].compute()
    for k in "ab":
        _compare(w, f"stock_{k}", _results(stocks[k]), _fresh("idsm", dims, lt, P[k], D[k]))

"""C16 -- dynamic stock models are causal, linear and independent across labels."""
from __future__ import annotations

import numpy as np

from checks import dsm

PROPERTY = "C16"
FUNCTIONS = ["InflowDrivenDSM._compute_stock", "DynamicStockModel._compute_outflow", "StockDrivenDSM._compute_inflow_manual",
             "StockDrivenDSM._compute_inflow_lapack", "LifetimeModel._remaining_ages", "LifetimeModel._tile", "UnevenTimeDim.compute_t_bounds"]
ASSUMPTIONS = ["time items strictly increasing", "survival table in [0,1]; diagonal >= 1/20 for the stock-driven class",
               "scipy kernels are functions of their arguments (uninterpreted, congruence only) in the time-shift harness",
               "scipy.linalg.solve_triangular satisfies its documented contract"]
OUTSIDE = ["n beyond the bound", "IEEE rounding"]
VARIANTS = "impulse and causal on a model computed before; plain per-label parameter vectors; np.allclose by numpy's definition in the scaling harness; causality with the shipped classes (start / middle); label dimensions lettered c / i, one as long as the time dimension"
BOUNDS = {"quick": dict(n=[3, 4], labels=2, grids=dsm.GRIDS, linearity_stock_driven="n=3 only"), "thorough": dict(n=[3, 4, 5, 6], labels="2 and 2x2", grids=dsm.GRIDS, linearity_stock_driven="n=3 only")}
for _t in BOUNDS.values():
    _t["variants_beyond_the_base_enumeration"] = VARIANTS
OPTS = {"quick": dict(shadow_every=3, timeout_ms=20000, max_paths=400), "thorough": dict(shadow_every=5, timeout_ms=120000, max_paths=400)}
KINDS = ["idsm", "sdsm_manual", "sdsm_lapack"]
# dtype shadow (2.5): the inflow-driven configurations are run once more with the driver stored as whole numbers in an integer array
# (pieces per year); every result array is created by flodym itself there, so nothing is truncated by the harness
DTYPE_SHADOW = lambda cfg: cfg.get("kind") == "idsm" and cfg["h"] in ("linear", "impulse", "causal", "labels") and not cfg.get("reuse") and "always"
REAL = [("FixedLifetime", ["mean"]), ("NormalLifetime", ["mean", "std"]), ("FoldedNormalLifetime", ["mean", "std"]),
        ("LogNormalLifetime", ["mean", "std"]), ("WeibullLifetime", ["weibull_shape", "weibull_scale"])]


def configs(tier, seed):
    out = []
    ns = [3, 4] if tier == "quick" else [3, 4, 5, 6]
    for kind in KINDS:
        for grid in dsm.GRIDS:
            for n in ns:
                for t0 in range(n - 1):
                    out.append(dict(h="causal", op=kind, key=f"causal/{kind}/grid={grid}/n={n}/t0={t0}", kind=kind, grid=grid, n=n, t0=t0, extra={"r": 2}))
                    if n == 3 and grid != "const":
                        out.append(dict(h="causal", op=kind + "again", key=f"causal/{kind}/grid={grid}/n={n}/t0={t0}/same_model_computed_before", kind=kind, grid=grid, n=n, t0=t0, extra={"r": 2}, reuse=True))
                if kind == "idsm" or n <= 3:  # stock-driven superposition at n >= 4: nlsat does not finish every outflow row within the budget
                    out.append(dict(h="linear", op=kind, key=f"linear/{kind}/grid={grid}/n={n}", kind=kind, grid=grid, n=n, extra={"r": 2} if n < 5 else {}))
                for extra in ([{"r": 2}] if tier == "quick" else [{"r": 2}, {"r": 2, "p": 2}]):
                    if n >= 5 and len(extra) > 1:
                        continue
                    ek = "x".join(f"{l}{k}" for l, k in extra.items())
                    out.append(dict(h="labels", op=kind, key=f"labels/{kind}/grid={grid}/n={n}/extra={ek}", kind=kind, grid=grid, n=n, extra=extra))
                out.append(dict(h="shift_table", op=kind, key=f"shift_table/{kind}/grid={grid}/n={n}", kind=kind, grid=grid, n=n, extra={"r": 2}))
    for kind in KINDS:
        # label dimensions whose letters an index expression might reserve for itself ('c' as in cohort, 'i'), one of them
        # as long as the time dimension
        for extra in ({"c": 3}, {"c": 2}, {"i": 3, "c": 2}):
            ek = "x".join(f"{l}{k}" for l, k in extra.items())
            out.append(dict(h="labels", op=kind + "letters", key=f"labels/{kind}/grid=uneven/n=3/extra={ek}", kind=kind, grid="uneven", n=3, extra=extra))
    for kind in KINDS:
        # scaling f(k x) = k f(x) with np.allclose following numpy's definition: explores the region where the
        # whole driver is within allclose's absolute tolerance of zero
        out.append(dict(h="scaling", op=kind, key=f"scaling/{kind}/n=3", kind=kind, grid="unit", n=3, extra={}))
    for kind in KINDS:
        for lt, prm in (REAL[1], REAL[4]):
            for pd in ("p", "r", "pr", "rp"):
                out.append(dict(h="labels_real", op=kind + lt, key=f"labels_real/{kind}/{lt}/prm_over={pd}", kind=kind, grid="uneven", n=3, extra={"p": 2, "r": 2},
                                lt=lt, prm=prm, pd=pd))
    for kind in ("idsm", "sdsm_manual"):
        for lt, prm in (REAL[0], REAL[1]):
            out.append(dict(h="labels_ndarray", op=kind + lt, key=f"labels_ndarray/{kind}/{lt}/n=3/r3", kind=kind, grid="uneven", n=3, extra={"r": 3}, lt=lt, prm=prm))
    for grid in dsm.GRIDS:
        for n in ns:
            out.append(dict(h="impulse", op="idsm", key=f"impulse/idsm/grid={grid}/n={n}", kind="idsm", grid=grid, n=n, extra={"r": 2}))
            if grid != "const":
                # every impulse on one model object that has been computed before with an arbitrary driver
                out.append(dict(h="impulse", op="idsm3", key=f"impulse/idsm/grid={grid}/n={n}/same_model_computed_before", kind="idsm", grid=grid, n=n, extra={"r": 2}, reuse=True))
            if grid == "uneven" and n == 4:
                # the same after another model was run on a different grid with the same end points and length
                out.append(dict(h="impulse", op="idsm2", key=f"impulse/idsm/grid={grid}/n={n}/after_other_grid", kind="idsm", grid=grid, n=n, extra={"r": 2}, after_other_grid=True))
            for lt, prm in REAL:
                for ia, npts in ([("middle", 1), ("start", 1)] if tier == "quick" else [("start", 1), ("middle", 1), ("end", 1), ("middle", 4)]):
                    out.append(dict(h="shift_real", op=lt, key=f"shift_real/{lt}/grid={grid}/n={n}/{ia}{npts}", kind="idsm", grid=grid, n=n, extra={"r": 2},
                                    lt=lt, prm=prm, inflow_at=ia, npts=npts))
    return out


def shim_plan(cfg):
    from svx import shims

    # np.allclose (guards the zero-driver warning) follows numpy's definition in the superposition harness, so that
    # the "driver is numerically zero" region is explored there; elsewhere that branch is not explored (C03/C09/C10 do)
    return shims.default_plan(allclose="model" if cfg["h"] == "scaling" else "false")


def ctx_setup(cfg, c):
    c.purify_div = cfg["kind"].startswith("sdsm")


def _results(st):
    return dict(stock=st.stock.values, inflow=st.inflow.values, outflow=st.outflow.values,
                stock_by_cohort=st.get_stock_by_cohort(), outflow_by_cohort=st.get_outflow_by_cohort())


def _run_on(st, kind, driver):
    """the same model object computed again with another driver (scenario loop)"""
    (st.inflow if kind == "idsm" else st.stock).set_values(driver.copy())
    st.compute()
    return _results(st)


def _run(kind, dims, tab, driver):
    lt = dsm.AnyLifetime(dims=dims, table=tab)
    st = dsm.build_stock(kind, dims, lifetime=lt, **({"inflow": driver} if kind == "idsm" else {"stock": driver}))
    st.compute()
    return _results(st)


def _labels_real(cfg, w, y, D):
    """every label evolves as if computed alone with its own parameters -- through the real lifetime classes
    (parameters as arrays over a subset of the label dimensions) and every solver"""
    import flodym.lifetime_models as lm
    from flodym import FlodymArray

    kind, lt = cfg["kind"], cfg["lt"]
    dims = dsm.make_dims(y, cfg["extra"])
    shape = dims.shape
    pd = cfg["pd"]
    P = {}
    for name in cfg["prm"]:
        A = w.arr("prm_" + name, tuple(2 for _ in pd), default=lambda idx, name=name: {"mean": 3.0, "std": 1.0, "weibull_shape": 1.7, "weibull_scale": 3.5}[name] * (1 + 0.27 * sum((i + 1) * (k + 1) for k, i in enumerate(idx))))
        for x in A.flat:
            w.assume(w.gt(x, 0))
        P[name] = A
    def model(d, prm):
        return getattr(lm, lt)(dims=d, **prm)
    full_lt = model(dims, {k: FlodymArray(dims=dims.get_subset(tuple(pd)), values=v.copy()) for k, v in P.items()})
    st = dsm.build_stock(kind, dims, lifetime=full_lt, **({"inflow": D} if kind == "idsm" else {"stock": D}))
    st.compute()
    full = _results(st)
    dims1 = dsm.make_dims(y, {})
    for lab in dsm.labels(shape[1:]):
        sel = (slice(None),) + lab
        lab_of = dict(zip("pr", lab))
        prm1 = {k: v[tuple(lab_of[l] for l in pd)] for k, v in P.items()}
        s1 = dsm.build_stock(kind, dims1, lifetime=model(dims1, prm1), **({"inflow": D[sel]} if kind == "idsm" else {"stock": D[sel]}))
        s1.compute()
        one = _results(s1)
        for k in one:
            a = np.asarray(full[k])
            part = a[sel] if a.ndim == len(shape) else a[(slice(None), slice(None)) + lab]
            o = np.asarray(one[k])
            for idx in np.ndindex(*o.shape):
                w.ob_eq(f"label{list(lab)}:{k}{list(idx)}", part[idx], o[idx], chain=kind.startswith("sdsm"))


def _labels_ndarray(cfg, w, y, D):
    """parameters handed over as plain numpy vectors with one value per label (numpy broadcasting over the last
    dimension), the number of labels being equal to the number of time steps: still one lifetime per label"""
    import flodym.lifetime_models as lm

    kind, lt = cfg["kind"], cfg["lt"]
    dims = dsm.make_dims(y, cfg["extra"])
    nlab = dims.shape[1]
    P = {}
    for name in cfg["prm"]:
        A = w.arr("prm_" + name, (nlab,), default=lambda idx, name=name: {"mean": 3.0, "std": 1.0}[name] * (1 + 0.4 * idx[0]))
        for x in A.flat:
            w.assume(w.gt(x, 0))
        P[name] = A
    for how in ("ctor", "set_prms"):
        if how == "ctor":
            model = getattr(lm, lt)(dims=dims, **{k: v.copy() for k, v in P.items()})
        else:
            model = getattr(lm, lt)(dims=dims)
            model.set_prms(**{k: v.copy() for k, v in P.items()})
        st = dsm.build_stock(kind, dims, lifetime=model, **({"inflow": D} if kind == "idsm" else {"stock": D}))
        st.compute()
        full = _results(st)
        dims1 = dsm.make_dims(y, {})
        for j in range(nlab):
            prm1 = {k: v[j] for k, v in P.items()}
            s1 = dsm.build_stock(kind, dims1, lifetime=getattr(lm, lt)(dims=dims1, **prm1), **({"inflow": D[:, j]} if kind == "idsm" else {"stock": D[:, j]}))
            s1.compute()
            one = _results(s1)
            for k in one:
                a = np.asarray(full[k])
                part = a[:, j] if a.ndim == 2 else a[:, :, j]
                o = np.asarray(one[k])
                for idx in np.ndindex(*o.shape):
                    w.ob_eq(f"{how}:label[{j}]:{k}{list(idx)}", part[idx], o[idx], chain=kind.startswith("sdsm"))


def run(cfg, w):
    import flodym.lifetime_models as lm

    n, kind, extra = cfg["n"], cfg["kind"], cfg["extra"]
    h = cfg["h"]
    y, dt, b = dsm.make_grid(w, n, cfg["grid"])
    if cfg.get("after_other_grid"):
        d0 = dsm.make_dims(y, extra)
        _run("idsm", d0, dsm.sf_table(w, n, d0.shape[1:], name="sf0", constrain=("range",)), w.arr("d0", d0.shape))
        y = [y[0]] + [w.real(f"z{i}", default=float(2000 + dsm._UNEVEN[i]) + 0.5) for i in range(1, n - 1)] + [y[-1]]
        for i in range(n - 1):
            w.assume(w.gt(y[i + 1] - y[i], 0))
        dt, b = dsm.oracle_bounds(y)
    dims = dsm.make_dims(y, extra)
    shape = dims.shape
    labs = dsm.labels(shape[1:])
    chain = kind.startswith("sdsm")
    if h == "shift_real":
        prm = {}
        for name in cfg["prm"]:
            prm[name] = w.real("prm_" + name, default={"mean": 3.0, "std": 1.0, "weibull_shape": 1.7, "weibull_scale": 3.5}[name])
            w.assume(w.gt(prm[name], 0))
        c = w.real("shift", default=37)
        I = w.arr("in", shape)
        res = []
        for items in (y, [v + c for v in y]):
            d2 = dsm.make_dims(items, extra)
            lt = getattr(lm, cfg["lt"])(dims=d2, inflow_at=cfg["inflow_at"], n_pts_per_interval=cfg["npts"], **prm)
            st = dsm.build_stock("idsm", d2, lifetime=lt, inflow=I)
            st.compute()
            r = _results(st)
            r["sf"] = lt.sf
            res.append(r)
        for k in res[0]:
            for idx in np.ndindex(*np.shape(res[0][k])):
                w.ob_eq(f"shift_invariant:{k}{list(idx)}", res[1][k][idx], res[0][k][idx])
        # causality with the shipped class and this inflow instant: the survival table has no entry for a cohort later than the
        # year, and results up to step t0 are those of the inflow cut off after t0
        sf0 = res[0]["sf"]
        for t in range(n):
            for cc in range(t + 1, n):
                for lab in dsm.labels(shape[1:]):
                    w.ob_eq(f"real_class:no_share_before_entry[{t},{cc}]{list(lab)}", sf0[(t, cc) + lab], 0)
        t0 = n - 2
        I2 = I.copy()
        I2[t0 + 1:] = 0
        d2 = dsm.make_dims(y, extra)
        lt2 = getattr(lm, cfg["lt"])(dims=d2, inflow_at=cfg["inflow_at"], n_pts_per_interval=cfg["npts"], **prm)
        st2 = dsm.build_stock("idsm", d2, lifetime=lt2, inflow=I2)
        st2.compute()
        r2 = _results(st2)
        for k in ("stock", "outflow", "stock_by_cohort"):
            a1, a2 = np.asarray(res[0][k]), np.asarray(r2[k])
            for idx in np.ndindex(*a1.shape):
                if idx[0] <= t0:
                    w.ob_eq(f"real_class:causal:{k}{list(idx)}", a2[idx], a1[idx])
        return
    if h in ("labels_real", "labels_ndarray"):
        tab = None
    else:
        tab = dsm.sf_table(w, n, shape[1:], constrain=("range",), diag_min=(0.05 if chain else None))
    D = w.arr("d", shape)
    w.set_scale(D)
    if h == "labels_real":
        return _labels_real(cfg, w, y, D)
    if h == "labels_ndarray":
        return _labels_ndarray(cfg, w, y, D)
    if h == "causal":
        t0 = cfg["t0"]
        D2 = D.copy()
        fresh = w.arr("e", (n - 1 - t0,) + tuple(shape[1:]))
        D2[t0 + 1:] = fresh
        r1 = _run(kind, dims, tab, D)
        if cfg.get("reuse"):
            # the second run on a model object that was computed before with a driver that is zero from t0+1 on
            D0 = D.copy()
            D0[t0 + 1:] = 0
            reused = dsm.build_stock(kind, dims, lifetime=dsm.AnyLifetime(dims=dims, table=tab), **({"inflow": D0} if kind == "idsm" else {"stock": D0}))
            reused.compute()
            r2 = _run_on(reused, kind, D2)
        else:
            r2 = _run(kind, dims, tab, D2)
        for k in r1:
            a1, a2 = np.asarray(r1[k]), np.asarray(r2[k])
            for idx in np.ndindex(*a1.shape):
                if idx[0] <= t0:
                    w.ob_eq(f"causal:{k}{list(idx)}", a2[idx], a1[idx], chain=chain)
        return
    if h == "scaling":
        k = w.real("k", default=1e-9)
        r1 = _run(kind, dims, tab, D)
        r2 = _run(kind, dims, tab, k * D)
        w.set_scale(k * D)  # float runs: the scaled results are compared at their own magnitude
        for key in r1:
            a1, a2 = np.asarray(r1[key]), np.asarray(r2[key])
            for idx in np.ndindex(*a1.shape):
                w.ob_eq(f"scaling:{key}{list(idx)}", a2[idx], k * a1[idx], chain=chain)
        return
    if h == "linear":
        D2 = w.arr("e", shape)
        al, be = w.real("alpha", default=1.5), w.real("beta", default=-0.75)
        r1 = _run(kind, dims, tab, D)
        r2 = _run(kind, dims, tab, D2)
        r3 = _run(kind, dims, tab, al * D + be * D2)
        for k in r1:
            a1, a2, a3 = np.asarray(r1[k]), np.asarray(r2[k]), np.asarray(r3[k])
            for idx in np.ndindex(*a1.shape):
                w.ob_eq(f"linear:{k}{list(idx)}", a3[idx], al * a1[idx] + be * a2[idx], chain=chain)
        return
    if h == "labels":
        full = _run(kind, dims, tab, D)
        dims1 = dsm.make_dims(y, {})
        for lab in labs:
            sel = (slice(None),) + lab
            tab1 = tab[(slice(None), slice(None)) + lab]
            one = _run(kind, dims1, tab1, D[sel])
            for k in one:
                a = np.asarray(full[k])
                part = a[sel] if a.ndim == len(shape) else a[(slice(None), slice(None)) + lab]
                o = np.asarray(one[k])
                for idx in np.ndindex(*o.shape):
                    w.ob_eq(f"label{list(lab)}:{k}{list(idx)}", part[idx], o[idx], chain=chain)
        return
    if h == "shift_table":
        c = w.real("shift", default=37)
        r1 = _run(kind, dims, tab, D)
        r2 = _run(kind, dsm.make_dims([v + c for v in y], extra), tab, D)
        for k in r1:
            a1, a2 = np.asarray(r1[k]), np.asarray(r2[k])
            for idx in np.ndindex(*a1.shape):
                w.ob_eq(f"shift_invariant:{k}{list(idx)}", a2[idx], a1[idx], chain=chain)
        return
    if h == "impulse":
        for c in range(n):
            for lab in labs:
                E = np.zeros(shape, dtype=object if w.sym else float)
                E[(c,) + lab] = 1
                if w.sym:
                    from svx.sym import symarr

                    E = symarr(E)
                if cfg.get("reuse"):
                    if c == 0 and lab == labs[0]:
                        reused = dsm.build_stock("idsm", dims, lifetime=dsm.AnyLifetime(dims=dims, table=tab), inflow=D)
                        reused.compute()
                    r = _run_on(reused, "idsm", E)
                else:
                    r = _run("idsm", dims, tab, E)
                for t in range(n):
                    for lab2 in labs:
                        want = tab[(t, c) + lab] * dt[c] if lab2 == lab else 0
                        w.ob_eq(f"impulse[c={c}]{list(lab)}:stock[{t}]{list(lab2)}", r["stock"][(t,) + lab2], want)
        return
    raise RuntimeError(h)

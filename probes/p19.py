exec(open('p16.py').read().split("sym.CTX = sym.Ctx()")[0])
sym.CTX = sym.Ctx()
al, be = SymReal(z3.Real('al')), SymReal(z3.Real('be'))
for n in [4,5]:
    k=2
    cls, drvname, kw = (StockDrivenDSM,'stock',dict(solver='manual'))
    A = lambda d: symarray('A', d.shape); B = lambda d: symarray('B', d.shape)
    r1 = build(cls, n, k, lambda d: {drvname: StockArray(dims=d, values=A(d))}, **kw)
    r2 = build(cls, n, k, lambda d: {drvname: StockArray(dims=d, values=B(d))}, **kw)
    r3 = build(cls, n, k, lambda d: {drvname: StockArray(dims=d, values=al*A(d) + be*B(d))}, **kw)
    ys = [z3.Real(f"y{i}") for i in range(n)]
    base = [ys[i+1] > ys[i] for i in range(n-1)] + [r1.lifetime_model.sf[c,c,r].t != 0 for c in range(n) for r in range(k)]
    lem=[]
    tot=0; bad=0; nq=0
    for t in range(n):
      for name in ['inflow','stock','outflow']:
        for r in range(k):
            idx=(t,r)
            eq = getattr(r3,name).values[idx].t == al.t*getattr(r1,name).values[idx].t + be.t*getattr(r2,name).values[idx].t
            s = z3.Solver(); s.set('timeout', 20000); s.add(*base); s.add(*lem); s.add(z3.Not(eq)); t0=time.time(); res = s.check(); tot+=time.time()-t0; nq+=1
            if str(res)=='unsat': lem.append(eq)   # proved: usable as lemma
            else: bad+=1
    print('SD chained n', n, 'queries', nq, 'non-unsat', bad, 'solver s', round(tot,2))

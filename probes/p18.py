src = open('p17.py').read()
pre, post = src.split("sym.CTX = sym.Ctx()\nal, be")
exec(pre)
PUR = []
cnt = [0]
def tdiv(self, o):
    if isinstance(o, np.ndarray): return NotImplemented
    ot = sym._lift(o)
    if ot is None: return NotImplemented
    if z3.is_rational_value(z3.simplify(ot)):
        return SymReal(self.t / ot)
    cnt[0]+=1
    q = z3.Real(f"q{cnt[0]}")
    PUR.append(q * ot == self.t); PUR.append(ot != 0)
    return SymReal(q)
def rtdiv(self, o):
    ot = sym._lift(o)
    if ot is None: return NotImplemented
    cnt[0]+=1
    q = z3.Real(f"q{cnt[0]}")
    PUR.append(q * self.t == ot); PUR.append(self.t != 0)
    return SymReal(q)
SymReal.__truediv__ = tdiv; SymReal.__rtruediv__ = rtdiv
post = post.replace("s.add(*base)", "s.add(*base); s.add(*PUR)")
exec("sym.CTX = sym.Ctx()\nal, be" + post)

import numpy as np, z3
import sym
from sym import *
sym.CTX = sym.Ctx()
LOG=[]
class SymArr(np.ndarray):
    def __array_finalize__(self, obj): pass
    def __array_ufunc__(self, ufunc, method, *inputs, out=None, **kw):
        LOG.append((ufunc.__name__, method))
        ins = [i.view(np.ndarray) if isinstance(i, SymArr) else i for i in inputs]
        if out is not None:
            kw['out'] = tuple(o.view(np.ndarray) if isinstance(o, SymArr) else o for o in out)
        if ufunc is np.maximum and method == 'reduce' and kw.get('axis', 0) is None or (ufunc is np.maximum and method=='reduce'):
            flat = ins[0].ravel()
            acc = flat[0].t
            for e in flat[1:]:
                acc = z3.If(acc >= e.t, acc, e.t)
            return SymReal(acc)
        if ufunc is np.absolute and method == '__call__':
            r = np.empty(ins[0].shape, dtype=object)
            for idx in np.ndindex(*r.shape): r[idx] = abs(ins[0][idx])
            return r.view(SymArr)
        res = getattr(ufunc, method)(*ins, **kw)
        if isinstance(res, np.ndarray) and res.dtype == object: res = res.view(SymArr)
        return res
    def __array_function__(self, func, types, args, kwargs):
        LOG.append(('F:'+func.__name__,))
        def down(a):
            if isinstance(a, SymArr): return a.view(np.ndarray)
            if isinstance(a, (list, tuple)): return type(a)(down(x) for x in a)
            return a
        res = func(*down(args), **{k: down(v) for k,v in kwargs.items()})
        if isinstance(res, np.ndarray) and res.dtype == object: res = res.view(SymArr)
        return res
a = symarray('a', (2,3)).view(SymArr)
b = symarray('b', (3,)).view(SymArr)
r = np.einsum('ab,b->ab', a, b); print(type(r).__name__)
r2 = -r + 1.0/r; print(type(r2).__name__)
m = np.max(np.abs(r2)); print(type(m).__name__, str(m)[:80].replace('\n',' '))
t = np.tile(r[:, np.newaxis], (1,2,1)); print(type(t).__name__, t.shape)
c = np.cumsum(r, axis=0); print(type(c).__name__)
d = np.diff(r, axis=0, prepend=0); print(type(d).__name__)
print(type(r.sum(axis=1)).__name__, type(np.zeros_like(r)).__name__, type(r.copy()).__name__, type(r[0]).__name__, type(r[[0,1]]).__name__)
from flodym import *
D=[Dimension(name='Aa', letter='a', items=[1,2]), Dimension(name='Bb', letter='b', items=[1,2,3])]
x = FlodymArray(dims=DimensionSet(dim_list=D), values=a)
print(type(x.values).__name__, type((x*x).values).__name__, type(x.sum_to(('b',)).values).__name__, type((x+2).values).__name__)
print(sorted(set(LOG)))

import numpy as np, z3, time
import sym
from sym import *
from flodym import *
D = {
 'a': Dimension(name='Aa', letter='a', items=['a1','a2','a3']),
 'b': Dimension(name='Bb', letter='b', items=['b1','b2','b3']),
 'c': Dimension(name='Cc', letter='c', items=['c1','c2']),
}
def mk(name, letters):
    dims = DimensionSet(dim_list=[D[l] for l in letters])
    return FlodymArray(dims=dims, values=symarray(name, dims.shape))
sym.CTX = sym.Ctx()
x = mk('x','abc')
sh = x.get_shares_over(('a','c'))
tot = x.sum_over(('a','c'))
s = z3.Solver()
obl = []
for j in range(3):
    obl.append(z3.Implies(tot.values[j].t != 0, z3.Sum([sh.values[i,j,k].t for i in range(3) for k in range(2)]) == 1))
back = sh * tot
for idx in np.ndindex(3,3,2):
    obl.append(z3.Implies(tot.values[idx[1]].t != 0, back.values[idx].t == x.values[idx].t))
s.add(z3.Not(z3.And(obl)))
t0=time.time(); print('shares', s.check(), time.time()-t0)
# division label identity
y = mk('y','cb')
q = x / y
obl=[q.values[i,j,k].t == x.values[i,j,k].t / y.values[k,j].t for i,j,k in np.ndindex(3,3,2)]
s = z3.Solver(); s.add(z3.Not(z3.And(obl))); 
for k,j in np.ndindex(2,3): s.add(y.values[k,j].t != 0)
t0=time.time(); print('div', s.check(), time.time()-t0)
# cast/sum back
big = DimensionSet(dim_list=[D['c'],D['b'],D['a']])
z = mk('z','ab'); c = z.cast_to(big); bk = c.sum_to(('a','b'))
obl=[bk.values[i,j].t == 2*z.values[i,j].t for i,j in np.ndindex(3,3)]
s = z3.Solver(); s.add(z3.Not(z3.And(obl))); t0=time.time(); print('cast', s.check(), time.time()-t0)

import numpy as np, z3, itertools, time, traceback
import sym
from sym import *
from flodym import Dimension, DimensionSet, FlodymArray

D = {
 'a': Dimension(name='Aa', letter='a', items=['a1','a2']),
 'b': Dimension(name='Bb', letter='b', items=['b1','b2']),
 'c': Dimension(name='Cc', letter='c', items=['c1','c2','c3']),
}
def mk(name, letters):
    dims = DimensionSet(dim_list=[D[l] for l in letters])
    return FlodymArray(dims=dims, values=symarray(name, dims.shape))

ops = {
 'mul': lambda x,y: x*y, 'add': lambda x,y: x+y, 'div': lambda x,y: x/y, 'sub': lambda x,y: x-y,
 'rsub': lambda x,y: 2-x, 'rdiv': lambda x,y: 2/x, 'radd': lambda x,y: 2.5+x, 'neg': lambda x,y: -x, 'abs': lambda x,y: abs(x),
 'absm': lambda x,y: x.abs(), 'sign': lambda x,y: x.sign(), 'max': lambda x,y: x.maximum(y), 'min': lambda x,y: x.minimum(y),
 'sum_to': lambda x,y: x.sum_to(('b',)), 'sum_over': lambda x,y: x.sum_over(('Bb',)),
 'cast': lambda x,y: x.cast_to(DimensionSet(dim_list=[D['c'],D['b'],D['a']])),
 'cumsum': lambda x,y: x.cumsum('b'), 'shares': lambda x,y: x.get_shares_over(('a',)), 'shares_all': lambda x,y: x.get_shares_over(('a','b')),
 'pow': lambda x,y: x**2, 'powarr': lambda x,y: x**y.sum_to(('b',)),
 'getitem': lambda x,y: x['a1'], 'getitem2': lambda x,y: y[{'c': Dimension(name='Cs', letter='s', items=['c3','c1'])}],
 'sum_values': lambda x,y: x.sum_values(),
 'copy': lambda x,y: x.copy(),
 'to_df': lambda x,y: x.to_df(),
 'to_df_sparse': lambda x,y: x.to_df(sparse=True),
 'full_like': lambda x,y: FlodymArray.full_like(x, 3.0),
 'scalarmul': lambda x,y: x*FlodymArray.scalar(SymReal(z3.Real('k'))),
 'symscalar': lambda x,y: x*SymReal(z3.Real('k')),
}
for name, op in ops.items():
    def run():
        x = mk('x', 'ab'); y = mk('y', 'cb')
        try:
            return op(x,y)
        except Exception as e:
            return e
    t=time.time()
    try:
        res = explore(run, max_paths=300)
    except Exception as e:
        print(name, 'EXPLORE-ERR', e); continue
    tr, out, ctx = res[0]
    if isinstance(out, FlodymArray):
        print(f"{name:10s} paths={len(res):3d} {time.time()-t:.2f}s dims={out.dims.letters} dtype={out.values.dtype} first={out.values.flat[0]}")
    else:
        print(f"{name:10s} paths={len(res):3d} {time.time()-t:.2f}s -> {type(out).__name__}: {str(out)[:200]}")

import numpy as np, z3, time
import sym
from sym import *
from flodym import *
from flodym.lifetime_models import LifetimeModel
import flodym.stocks, flodym.lifetime_models

class Shim:
    def __init__(self, real): self._real = real
    def __getattr__(self, k): return getattr(self._real, k)
    def zeros(self, shape, dtype=None, **kw):
        a = np.empty(shape, dtype=object); a[...] = 0; return a
    def allclose(self, a, b, **kw):
        return False
flodym.stocks.np = Shim(np)
flodym.lifetime_models.np = Shim(np)

class AnyLifetime(LifetimeModel):
    """abstract lifetime model: survival share is a free symbolic per (year, cohort, label)"""
    @property
    def prms(self): return {}
    def set_prms(self): pass
    def _survival_by_year_id(self, t, m):
        out = np.empty(t.shape, dtype=object)
        for idx in np.ndindex(*t.shape):
            out[idx] = SymReal(z3.Real(f"sf_{m}_" + "_".join(map(str, idx))))
        return out

def run(n=4, k=2, cls=InflowDrivenDSM):
    years = [SymReal(z3.Real(f"y{i}")) for i in range(n)]
    T = Dimension(name='Time', letter='t', items=years)
    R = Dimension(name='Reg', letter='r', items=[f"r{i}" for i in range(k)])
    dims = DimensionSet(dim_list=[T, R])
    lt = AnyLifetime(dims=dims)
    mk = lambda nm: StockArray(dims=dims, values=symarray(nm, dims.shape), name=nm)
    st = cls(dims=dims, lifetime_model=lt, stock=mk('s'), inflow=mk('i'), outflow=mk('o'))
    st.compute()
    return st

t0=time.time()
res = explore(lambda: run())
print('paths', len(res), time.time()-t0)
tr, st, ctx = res[0]
print(st.stock.values[1,0])
print(st.outflow.values[1,0])
print(st._t.interval_lengths)
# obligation: stock(t)-stock(t-1) = dt(t)*(inflow(t)-outflow(t))
S, I, O = st.stock.values, st.inflow.values, st.outflow.values
dt = st._t.interval_lengths
obl = []
for t in range(S.shape[0]):
    for r in range(S.shape[1]):
        prev = S[t-1, r].t if t > 0 else z3.RealVal(0)
        obl.append(S[t, r].t - prev == dt[t].t * (I[t, r].t - O[t, r].t))
s = z3.Solver()
s.add(z3.Not(z3.And(obl)))
t0=time.time(); print(s.check(), time.time()-t0)
ys = [z3.Real(f"y{i}") for i in range(4)]
s = z3.Solver(); s.add(z3.Not(z3.And(obl))); s.add(*[ys[i+1]-ys[i]==z3.Real('d') for i in range(3)], z3.Real('d')>0)
t0=time.time(); print('uniform grid:', s.check(), time.time()-t0)
s = z3.Solver(); s.add(z3.Not(z3.And(obl))); s.add(*[ys[i+1]>ys[i] for i in range(3)])
t0=time.time(); r=s.check(); print('increasing grid:', r, time.time()-t0)
m = s.model(); print({str(d): m[d] for d in m.decls() if str(d).startswith('y')})

# stock driven
for solver in ['manual']:
    t0=time.time()
    res = explore(lambda: run(n=4, k=2, cls=lambda **kw: StockDrivenDSM(solver=solver, **kw)))
    print('SD paths', len(res), time.time()-t0)
    tr, st, ctx = res[0]
    print(type(st))
    S, I = st.stock.values, st.inflow.values
    sf = st.lifetime_model.sf
    dt = st._t.interval_lengths
    obl2=[]
    for t in range(4):
        for r in range(2):
            obl2.append(S[t,r].t == z3.Sum([I[c,r].t*dt[c].t*sf[t,c,r].t for c in range(t+1)]))
    s = z3.Solver(); s.add(z3.Not(z3.And(obl2)))
    s.add(*[ys[i+1]>ys[i] for i in range(3)])
    for c in range(4):
        for r in range(2):
            s.add(sf[c,c,r].t != 0)
    t0=time.time(); print('SD sf*inflow==stock:', s.check(), time.time()-t0)

exec(open('p10.py').read().split("for cls in [NormalLifetime")[0])
from flodym.gauss_lobatto import gl_nodes, gl_weights
from fractions import Fraction
def lift(x): return sym._lift(x)
n=3
ys=[z3.Real(f"y{i}") for i in range(n)]
mid=[(ys[i]+ys[i+1])/2 for i in range(n-1)]
b=[mid[0]-(mid[1]-mid[0])]+mid+[mid[-1]+(mid[-1]-mid[-2])]
import time
for cls in [NormalLifetime, WeibullLifetime, LogNormalLifetime, FoldedNormalLifetime]:
  for npts, at in [(1,'start'),(1,'middle'),(1,'end'),(3,'middle'),(6,'middle')]:
    assum=[ys[i+1]>ys[i] for i in range(n-1)]
    # parameters positive
    res = explore(lambda: run(cls, n=n, npts=npts, inflow_at=at), assumptions=assum+[z3.Real(f"m_{r}_{t}")>0 for r in range(2) for t in range(n)]+[z3.Real(f"k_{r}")>0 for r in range(2)], max_paths=50)
    m, sf, pdf = res[0][1]
    if npts==1: quad=[({'start':0,'middle':0.5,'end':1}[at],1)]
    else: quad=[((x+1)/2, w/2) for x,w in zip(gl_nodes[npts], gl_weights[npts])]
    tot=0; bad=0; nq=0
    for t in range(n):
      for c in range(n):
        for r in range(2):
            if t<c: exp=z3.RealVal(0)
            else:
                terms=[]
                for eta,w in quad:
                    age=b[t+1]-(lift(eta)*b[c+1]+(1-lift(eta))*b[c])
                    mm=z3.Real(f"m_{r}_{c}"); ss=z3.Real(f"s_{r}"); kk=z3.Real(f"k_{r}"); ll=z3.Real(f"l_{r}_{c}")
                    if cls is NormalLifetime: v=UF['norm_sf'](age, mm, ss)
                    elif cls is WeibullLifetime: v=UF['weibull_sf'](age, kk, z3.RealVal(0), ll)
                    elif cls is FoldedNormalLifetime: v=UF['foldnorm_sf'](age, mm/ss, z3.RealVal(0), ss)
                    else: v=UF['lognorm_sf'](age, UF['sqrt'](UF['log'](1+ss*ss/(mm*mm))), z3.RealVal(0), UF['exp'](UF['log'](mm*mm/UF['sqrt'](mm*mm+ss*ss))))
                    terms.append(lift(w)*v)
                exp=z3.Sum(terms)
            s=z3.Solver(); s.set('timeout',20000); s.add(*assum); s.add(lift(sf[t,c,r])!=exp); t0=time.time(); rr=s.check(); tot+=time.time()-t0; nq+=1; bad+= str(rr)!='unsat'
    print(cls.__name__, npts, at, 'paths', len(res), 'queries', nq, 'non-unsat', bad, 'solver s', round(tot,2))

import z3, time, itertools
import sym
from sym import *
from flodym import Dimension, DimensionSet

class SymLetter(str):
    """one-character str whose equality is decided by the solver"""
    def __new__(cls, ch, ident):
        o = str.__new__(cls, ch); o.ident = ident; return o
    def __eq__(self, other):
        if isinstance(other, SymLetter):
            if other is self: return True
            return sym.CTX.branch(self.ident == other.ident)
        if isinstance(other, str):
            return False if len(other) != 1 else NotImplemented
        return NotImplemented
    def __ne__(self, other):
        r = self.__eq__(other)
        return r if r is NotImplemented else not r
    def __hash__(self): return 424242

def mkdim(i):
    d = Dimension(name=f"Dim{i}", letter=chr(ord('a')+i), items=[f"i{i}_{k}" for k in range(1+i%3)])
    d.letter = SymLetter(chr(ord('a')+i), z3.Int(f"L{i}"))
    return d

def run(nA, nB):
    ds = [mkdim(i) for i in range(nA+nB)]
    try:
        A = DimensionSet(dim_list=ds[:nA]); B = DimensionSet(dim_list=ds[nA:])
    except Exception as e:
        return ('ctor-reject', None)
    out = {}
    for name, op in [('or', lambda: A|B), ('and', lambda: A&B), ('sub', lambda: A-B), ('xor', lambda: A^B), ('add', lambda: A+B)]:
        try:
            r = op(); out[name] = [d.name for d in r.dim_list]
        except Exception as e:
            out[name] = type(e).__name__
    return ('ok', out, [d.name for d in A.dim_list], [d.name for d in B.dim_list])
t0=time.time()
res = explore(lambda: run(3,3), max_paths=5000)
print('paths', len(res), time.time()-t0)
from collections import Counter
print(Counter(r[1][0] for r in res))
ok = [r for r in res if r[1][0]=='ok']
tr, out, ctx = ok[5]
print([(str(c), t) for c,t in tr]); print(out)

import numpy as np, pandas as pd
from flodym import *
c = Dimension(name='Cc', letter='c', items=[1,2], dtype=int)
a = Dimension(name='Aa', letter='a', items=['a1','a2'])
x = FlodymArray(dims=DimensionSet(dim_list=[c]), values=np.array([1.5, 2.25]))
for kw in [dict(), dict(index=False)]:
    try:
        y = FlodymArray.from_df(dims=x.dims, df=x.to_df(**kw)); print(kw, 'ok', y.values)
    except Exception as e: print(kw, 'EXC', str(e)[:200])
x = FlodymArray(dims=DimensionSet(dim_list=[c,a]), values=np.array([[1.5, 1.7],[2.25,2.0]]))
for kw in [dict(), dict(index=False), dict(dim_to_columns='c')]:
    try:
        y = FlodymArray.from_df(dims=x.dims, df=x.to_df(**kw)); print(kw, 'ok', (y.values==x.values).all())
    except Exception as e: print(kw, 'EXC', type(e).__name__, str(e)[:200])
x = FlodymArray(dims=DimensionSet(dim_list=[c,a]), values=np.array([[10.5, 1.7],[20.25,2.0]]))
for kw in [dict(), dict(index=False), dict(dim_to_columns='c')]:
    try:
        y = FlodymArray.from_df(dims=x.dims, df=x.to_df(**kw)); print(kw, 'ok', (y.values==x.values).all())
    except Exception as e: print(kw, 'EXC', type(e).__name__, str(e)[:200])

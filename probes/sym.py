"""probe: symbolic reals inside numpy object arrays, path forking by re-execution."""
import numbers
import z3
import numpy as np


class PathAbort(BaseException):
    pass


class Ctx:
    def __init__(self):
        self.solver = z3.Solver()
        self.decisions = []  # forced prefix
        self.pos = 0
        self.trace = []  # (cond, taken)
        self.nq = 0

    def branch(self, cond):
        """decide a symbolic boolean; follows forced prefix, else picks a feasible side."""
        cond = z3.simplify(cond)
        if z3.is_true(cond):
            return True
        if z3.is_false(cond):
            return False
        if self.pos < len(self.decisions):
            taken = self.decisions[self.pos]
        else:
            # check feasibility of True first
            self.nq += 1
            self.solver.push()
            self.solver.add(cond)
            r = self.solver.check()
            self.solver.pop()
            if r == z3.sat:
                taken = True
            else:
                taken = False
            self.decisions.append(taken)
        self.pos += 1
        self.solver.add(cond if taken else z3.Not(cond))
        self.trace.append((cond, taken))
        return taken


CTX = None
CANDS = []


def explore(fn, assumptions=(), max_paths=10000):
    """run fn() over all feasible paths. fn returns list of (name, z3 bool obligation)."""
    global CTX
    stack = [[]]
    results = []
    npaths = 0
    while stack:
        prefix = stack.pop()
        CTX = Ctx()
        for a in assumptions:
            CTX.solver.add(a)
        CTX.decisions = list(prefix)
        try:
            out = fn()
        except PathAbort:
            out = None
        npaths += 1
        results.append((list(CTX.trace), out, CTX))
        # schedule alternatives for decisions made beyond the prefix
        for i in range(len(prefix), len(CTX.decisions)):
            if CTX.decisions[i] is True:
                alt = CTX.decisions[:i] + [False]
                # feasibility of alt checked lazily: when replayed, the forced decision is added to solver;
                # check here
                s = z3.Solver()
                for a in assumptions:
                    s.add(a)
                for (c, t) in CTX.trace[:i]:
                    s.add(c if t else z3.Not(c))
                s.add(z3.Not(CTX.trace[i][0]))
                if s.check() == z3.sat:
                    stack.append(alt)
        if npaths > max_paths:
            raise RuntimeError("too many paths")
    return results


def _lift(x):
    if isinstance(x, SymReal):
        return x.t
    if isinstance(x, (bool, np.bool_)):
        return z3.RealVal(int(x))
    if isinstance(x, (int, np.integer)):
        return z3.RealVal(int(x))
    if isinstance(x, (float, np.floating)):
        from fractions import Fraction
        f = Fraction(float(x))
        return z3.RealVal(f.numerator) / z3.RealVal(f.denominator)
    return None


class SymBool:
    def __init__(self, t):
        self.t = t

    def __bool__(self):
        return CTX.branch(self.t)

    def __and__(self, o):
        return SymBool(z3.And(self.t, o.t if isinstance(o, SymBool) else z3.BoolVal(bool(o))))

    def __or__(self, o):
        return SymBool(z3.Or(self.t, o.t if isinstance(o, SymBool) else z3.BoolVal(bool(o))))

    def __invert__(self):
        return SymBool(z3.Not(self.t))


class SymReal(numbers.Real):
    pass

    def __init__(self, t):
        self.t = t

    def _bin(self, o, f):
        if isinstance(o, np.ndarray):
            return NotImplemented
        ot = _lift(o)
        if ot is None:
            return NotImplemented
        return SymReal(f(self.t, ot))

    def __add__(self, o): return self._bin(o, lambda a, b: a + b)
    def __radd__(self, o): return self._bin(o, lambda a, b: b + a)
    def __sub__(self, o): return self._bin(o, lambda a, b: a - b)
    def __rsub__(self, o): return self._bin(o, lambda a, b: b - a)
    def __mul__(self, o): return self._bin(o, lambda a, b: a * b)
    def __rmul__(self, o): return self._bin(o, lambda a, b: b * a)
    def __truediv__(self, o): return self._bin(o, lambda a, b: a / b)
    def __rtruediv__(self, o): return self._bin(o, lambda a, b: b / a)
    def __neg__(self): return SymReal(-self.t)
    def __pos__(self): return self
    def __abs__(self): return SymReal(z3.If(self.t >= 0, self.t, -self.t))
    def __pow__(self, o):
        if isinstance(o, (int, np.integer)) and 0 <= o <= 4:
            r = z3.RealVal(1)
            for _ in range(int(o)):
                r = r * self.t
            return SymReal(r)
        raise PathAbort()
    def __rpow__(self, o): raise PathAbort()
    def _cmp(self, o, f):
        ot = _lift(o)
        if ot is None:
            return NotImplemented
        return SymBool(f(self.t, ot))
    def __lt__(self, o): return self._cmp(o, lambda a, b: a < b)
    def __le__(self, o): return self._cmp(o, lambda a, b: a <= b)
    def __gt__(self, o): return self._cmp(o, lambda a, b: a > b)
    def __ge__(self, o): return self._cmp(o, lambda a, b: a >= b)
    def __eq__(self, o): return self._cmp(o, lambda a, b: a == b)
    def __ne__(self, o): return self._cmp(o, lambda a, b: a != b)
    def __hash__(self): return hash(self.t)
    def __float__(self): raise TypeError("symbolic real concretised")
    def __trunc__(self):
        for k in CANDS:
            if CTX.branch(z3.If(self.t>=0, z3.ToInt(self.t), -z3.ToInt(-self.t)) == k): return k
        return 10**9+7
    __int__ = __trunc__
    def __floor__(self): raise TypeError
    def __ceil__(self): raise TypeError
    def __round__(self, n=None): raise TypeError
    def __floordiv__(self, o): raise TypeError
    def __rfloordiv__(self, o): raise TypeError
    def __mod__(self, o): raise TypeError
    def __rmod__(self, o): raise TypeError
    def __repr__(self): return f"S({self.t})"


def symarray(name, shape):
    a = np.empty(shape, dtype=object)
    for idx in np.ndindex(*shape):
        a[idx] = SymReal(z3.Real(name + "_" + "_".join(map(str, idx)) if idx else name))
    return a

import numpy as np
from flodym import Dimension, DimensionSet, FlodymArray
A = Dimension(name='Aa', letter='a', items=['a1','a2'])
B = Dimension(name='Bb', letter='b', items=['b1','b2'])

def check_sub(x0: float, x1: float, y0: float, y1: float, y2: float, y3: float) -> bool:
    """
    pre: -1e6 < x0 < 1e6 and -1e6 < x1 < 1e6 and -1e6 < y0 < 1e6 and -1e6 < y1 < 1e6 and -1e6 < y2 < 1e6 and -1e6 < y3 < 1e6
    post: _
    """
    x = FlodymArray(dims=DimensionSet(dim_list=[A]), values=np.array([x0, x1], dtype=object))
    y = FlodymArray(dims=DimensionSet(dim_list=[B, A]), values=np.array([[y0, y1],[y2,y3]], dtype=object))
    r = x - y
    return r.values[0] == x0 - (y0 + y2) and r.values[1] == x1 - (y1 + y3)

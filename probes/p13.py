import numpy as np, z3, time
import sym
from sym import *
from flodym import *
from flodym.export import PlotlySankeyPlotter, PlotlyArrayPlotter, PyplotArrayPlotter, convert_to_dict
import matplotlib; matplotlib.use('Agg')
sym.CTX = sym.Ctx()
D = {
 't': Dimension(name='Time', letter='t', items=[1,2]),
 'a': Dimension(name='Aa', letter='a', items=['a1','a2']),
 'b': Dimension(name='Bb', letter='b', items=['b1','b2']),
}
dims = DimensionSet(dim_list=list(D.values()))
procs = make_processes(['sysenv','p1','p2'])
fd = [FlowDefinition(from_process='sysenv', to_process='p1', dim_letters=('t','a')),
      FlowDefinition(from_process='p1', to_process='p2', dim_letters=('a','t','b')),
      FlowDefinition(from_process='p2', to_process='p1', dim_letters=('t',))]
flows = make_empty_flows(procs, fd, dims)
for i,(n,f) in enumerate(flows.items()):
    f.values = symarray(f"f{i}", f.dims.shape)
mfa = MFASystem(dims=dims, parameters={}, processes=procs, flows=flows, stocks={})
try:
    pl = PlotlySankeyPlotter(mfa=mfa, slice_dict={'t': 2}, exclude_processes=[], flow_color_dict={'default':'red', 'p1 => p2': ('Bb', ['red','blue'])})
    fig = pl.plot()
    print('sankey', list(fig.data[0].link.value), list(fig.data[0].link.source), list(fig.data[0].link.target))
except Exception as e:
    import traceback; traceback.print_exc()
x = flows['p1 => p2']
try:
    fig = PlotlyArrayPlotter(array=x, intra_line_dim='Time', subplot_dim='a', linecolor_dim='b').plot()
    print('plotly', [(tr.name, list(tr.x), list(tr.y)) for tr in fig.data][:2])
except Exception as e:
    print('plotly EXC', repr(e)[:300])
try:
    fig = PyplotArrayPlotter(array=x, intra_line_dim='Time', subplot_dim='a', linecolor_dim='b').plot()
    print('pyplot ok')
except Exception as e:
    print('pyplot EXC', repr(e)[:300])
d = convert_to_dict(mfa, 'pandas'); print(type(d['flows']['p1 => p2']), d['flows']['p1 => p2'].iloc[0,0])

exec(open('p16.py').read().split("sym.CTX = sym.Ctx()")[0])
sym.CTX = sym.Ctx()
al, be = SymReal(z3.Real('al')), SymReal(z3.Real('be'))
for n in [3,4,5]:
    k=2
    for cls, drvname, kw in [(InflowDrivenDSM,'inflow',{}), (StockDrivenDSM,'stock',dict(solver='manual'))]:
        A = lambda d: symarray('A', d.shape); B = lambda d: symarray('B', d.shape)
        r1 = build(cls, n, k, lambda d: {drvname: StockArray(dims=d, values=A(d))}, **kw)
        r2 = build(cls, n, k, lambda d: {drvname: StockArray(dims=d, values=B(d))}, **kw)
        r3 = build(cls, n, k, lambda d: {drvname: StockArray(dims=d, values=al*A(d) + be*B(d))}, **kw)
        ys = [z3.Real(f"y{i}") for i in range(n)]
        base = [ys[i+1] > ys[i] for i in range(n-1)] + [r1.lifetime_model.sf[c,c,r].t != 0 for c in range(n) for r in range(k)]
        tot=0; bad=0
        for name in ['inflow','outflow','stock']:
            for idx in np.ndindex(n,k):
                s = z3.Solver(); s.set('timeout', 60000); s.add(*base)
                s.add(getattr(r3,name).values[idx].t != al.t*getattr(r1,name).values[idx].t + be.t*getattr(r2,name).values[idx].t)
                t0=time.time(); r = s.check(); tot+=time.time()-t0
                bad += str(r)!='unsat'
        # cohort table
        for idx in np.ndindex(n,n,k):
            s = z3.Solver(); s.set('timeout', 60000); s.add(*base)
            s.add(sym._lift(r3.get_stock_by_cohort()[idx]) != al.t*sym._lift(r1.get_stock_by_cohort()[idx]) + be.t*sym._lift(r2.get_stock_by_cohort()[idx]))
            t0=time.time(); r = s.check(); tot+=time.time()-t0
            bad += str(r)!='unsat'
        print(cls.__name__, 'n', n, 'linear: non-unsat', bad, 'solver s', round(tot,2))

import numpy as np, z3, time, pandas as pd, traceback
import sym
from sym import *
from flodym import *
import flodym._df_to_flodym_array as conv
D = {
 'a': Dimension(name='Aa', letter='a', items=['a1','a2']),
 'b': Dimension(name='Bb', letter='b', items=['b1','b2','b3']),
 'c': Dimension(name='Cc', letter='c', items=[1,2], dtype=int),
}
def mk(name, letters):
    dims = DimensionSet(dim_list=[D[l] for l in letters])
    return FlodymArray(dims=dims, values=symarray(name, dims.shape))
class Shim:
    def __init__(self, real): self._real = real
    def __getattr__(self, k): return getattr(self._real, k)
    def zeros(self, shape, dtype=None, **kw):
        a = np.empty(shape, dtype=object); a[...] = 0; return a
    float64 = object
conv.np = Shim(np)
sym.CANDS[:] = [1,2]
def run(letters, kw):
    x = mk('x', letters)
    try:
        df = x.to_df(**kw)
        if 'index' in kw:
            df = df.sample(frac=1, random_state=1)
        return x, FlodymArray.from_df(dims=x.dims, df=df)
    except Exception as e:
        return x, e
for letters in ['ab', 'c', 'ca']:
  for kw in [dict(), dict(index=False), dict(dim_to_columns=letters[0])]:
    t0=time.time(); res = explore(lambda: run(letters, kw), max_paths=5000)
    bad = 0; exc = {}
    for tr, (x, v), ctx in res:
        if isinstance(v, Exception): exc[repr(v)[:160]] = exc.get(repr(v)[:160], 0)+1; continue
        same = all(z3.eq(v.values[i].t, x.values[i].t) for i in np.ndindex(*x.values.shape))
        bad += (not same)
    print(letters, kw, 'paths', len(res), round(time.time()-t0,1), 'mismatch', bad, 'exc', exc)
    if exc:
        tr = [t for t in res if isinstance(t[1][1], Exception)][0][0]
        print('   path:', [(str(c), t) for c,t in tr][:6])

from flodym import Dimension, DimensionSet, Process, FlowDefinition
class S(str):
    pass
d = Dimension(name=S('Time'), letter=S('t'), items=[1,2])
print(type(d.name), type(d.letter))
p = Process(name=S('sysenv'), id=0); print(type(p.name))
f = FlowDefinition(from_process_name=S('a'), to_process_name=S('b'), dim_letters=(S('t'),), name_override=S('x'))
print(type(f.from_process_name), type(f.dim_letters[0]), type(f.name_override))
ds = DimensionSet(dim_list=[d]); print(type(ds.dim_list[0].letter), ds.dim_list[0] is d)

import numpy as np, logging
from flodym import *
def t(name, fn):
    try: print(name, '->', fn())
    except Exception as e: print(name, 'EXC', type(e).__name__, str(e)[:120])
A = Dimension(name='Aa', letter='a', items=['a1','a2']); B = Dimension(name='Bb', letter='b', items=['b1','b2','b3'])
T = Dimension(name='Time', letter='t', items=[1,2,3])
ds = DimensionSet(dim_list=[A,B])
# F6
x = FlodymArray(dims=ds, values=np.arange(6.).reshape(2,3))
t('F6 set_values wrong shape', lambda: x.set_values(np.zeros((3,2))))
print('   after:', x.values.shape, x.dims.shape)
x = FlodymArray(dims=ds, values=np.arange(6.).reshape(2,3))
t('F6b x[...] = wrong', lambda: x.__setitem__(..., np.zeros((3,))))
print('   after:', x.values.shape)
# F7
x = FlodymArray(dims=ds, values=np.arange(6.).reshape(2,3))
s = x['a1']; s.values[0] = 99; print('F7 slice view: x[0,0] =', x.values[0,0], np.shares_memory(s.values, x.values))
x = FlodymArray(dims=ds, values=np.arange(6.).reshape(2,3))
s = x.sum_to(('a','b')); print('F7b sum_to all shares:', np.shares_memory(s.values, x.values))
s = x.sum_over(()); print('F7c sum_over () shares:', np.shares_memory(s.values, x.values))
s = x.cast_to(ds); print('F7d cast_to same shares:', np.shares_memory(s.values, x.values))
s = x[...]; print('F7e x[...] shares:', np.shares_memory(s.values, x.values))
sub = Dimension(name='Bs', letter='s', items=['b3','b1'])
s = x[{'b': sub}]; print('F7f subset shares:', np.shares_memory(s.values, x.values))
# F8
g = ds.get_subset(); g.append(T, inplace=True); print('F8 get_subset() alias: ds letters', ds.letters)
ds = DimensionSet(dim_list=[A,B])
g = ds.copy(); g.append(T, inplace=True); print('   copy ok: ds letters', ds.letters)
g = ds[('a','b')]; g.drop('a', inplace=True); print('   subset tuple: ds letters', ds.letters)
# F5
dims = DimensionSet(dim_list=[T])
lt = NormalLifetime(dims=dims, mean=2., std=1.)
st = InflowDrivenDSM(dims=dims, lifetime_model=lt); st.inflow.values[...] = 1.; st.compute(); s1 = st.stock.values.copy()
lt.set_prms(mean=FlodymArray(dims=dims, values=np.full(3, 10.)), std=FlodymArray(dims=dims, values=np.full(3, 1.)))
st.compute(); print('F5 stale cache:', s1, st.stock.values)
fresh = InflowDrivenDSM(dims=dims, lifetime_model=NormalLifetime(dims=dims, mean=10., std=1.)); fresh.inflow.values[...] = 1.; fresh.compute(); print('   fresh:', fresh.stock.values)
# F4
dims = DimensionSet(dim_list=[T, A])
procs = make_processes(['sysenv','p1','p2'])
fl = make_empty_flows(procs, [FlowDefinition(from_process='sysenv', to_process='p1', dim_letters=('t','a')), FlowDefinition(from_process='p1', to_process='sysenv', dim_letters=('t',))], dims)
for f in fl.values(): f.values[...] = 1.0
fl['p1 => sysenv'].values[...] = 2.0
m = MFASystem(dims=dims, parameters={}, processes=procs, flows=fl, stocks={})
t('F4a no stocks default tol', lambda: m.check_mass_balance())
t('F4b unused process p2, explicit tol', lambda: m.check_mass_balance(tolerance=1e-9))
procs2 = make_processes(['sysenv','p1'])
fl2 = make_empty_flows(procs2, [FlowDefinition(from_process='sysenv', to_process='p1', dim_letters=('t','a')), FlowDefinition(from_process='p1', to_process='sysenv', dim_letters=('t',))], dims)
fl2['sysenv => p1'].values[...] = np.nan
m2 = MFASystem(dims=dims, parameters={}, processes=procs2, flows=fl2, stocks={})
logging.basicConfig(level=logging.INFO)
t('F4c NaN balance explicit tol', lambda: m2.check_mass_balance(tolerance=1e-9))
t('F4d check_flows no stocks', lambda: m2.check_flows())
# C13 stock validators: same letters different items
T2 = Dimension(name='Time', letter='t', items=[1,2])
t('C13 stock accepts array with different time items', lambda: SimpleFlowDrivenStock(dims=DimensionSet(dim_list=[T]), inflow=StockArray(dims=DimensionSet(dim_list=[T2]))).inflow.values.shape)

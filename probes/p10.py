import numpy as np, z3, time
import sym
from sym import *
from flodym import *
import flodym.lifetime_models as lm

R = z3.RealSort()
UF = {n: z3.Function(n, *([R]*k), R) for n,k in [('norm_sf',3),('foldnorm_sf',4),('lognorm_sf',4),('weibull_sf',4),('log',1),('sqrt',1),('exp',1)]}
SymReal.log = lambda self: SymReal(UF['log'](self.t))
SymReal.sqrt = lambda self: SymReal(UF['sqrt'](self.t))
SymReal.exp = lambda self: SymReal(UF['exp'](self.t))
SymBool.__int__ = lambda self: int(bool(self))
SymBool.__index__ = lambda self: int(bool(self))
def uf_apply(name, *args):
    arrs = np.broadcast_arrays(*[np.asarray(a, dtype=object) for a in args])
    out = np.empty(arrs[0].shape, dtype=object)
    for idx in np.ndindex(*out.shape):
        out[idx] = SymReal(UF[name](*[sym._lift(a[idx]) for a in arrs]))
    return out
class Dist:
    def __init__(self, name, order): self.name, self.order = name, order
    def sf(self, x, *a, **kw):
        names = self.order
        vals = dict(zip(names, a)); vals.update(kw)
        vals.setdefault('loc', 0); vals.setdefault('scale', 1)
        return uf_apply(self.name, x, *[vals[n] for n in names])
class Stats:
    norm = Dist('norm_sf', ['loc','scale'])
    foldnorm = Dist('foldnorm_sf', ['c','loc','scale'])
    lognorm = Dist('lognorm_sf', ['s','loc','scale'])
    weibull_min = Dist('weibull_sf', ['c','loc','scale'])
class Scipy: stats = Stats
class Shim:
    def __init__(self, real): self._real = real
    def __getattr__(self, k): return getattr(self._real, k)
    def zeros(self, shape, dtype=None, **kw):
        a = np.empty(shape, dtype=object); a[...] = 0; return a
lm.np = Shim(np); lm.scipy = Scipy

def run(cls, n=3, npts=1, inflow_at='middle'):
    years = [SymReal(z3.Real(f"y{i}")) for i in range(n)]
    T = Dimension(name='Time', letter='t', items=years)
    Rg = Dimension(name='Reg', letter='r', items=['r0','r1'])
    dims = DimensionSet(dim_list=[T, Rg])
    prm = lambda nm, letters: FlodymArray(dims=dims[tuple(letters)], values=symarray(nm, dims[tuple(letters)].shape))
    if cls is WeibullLifetime:
        m = cls(dims=dims, weibull_shape=prm('k','r'), weibull_scale=prm('l','rt'), n_pts_per_interval=npts, inflow_at=inflow_at)
    elif cls is FixedLifetime:
        m = cls(dims=dims, mean=prm('m','rt'), n_pts_per_interval=npts, inflow_at=inflow_at)
    else:
        m = cls(dims=dims, mean=prm('m','rt'), std=prm('s','r'), n_pts_per_interval=npts, inflow_at=inflow_at)
    return m, m.sf, m.pdf
for cls in [NormalLifetime, FoldedNormalLifetime, LogNormalLifetime, WeibullLifetime, FixedLifetime]:
  for npts in [1,3]:
    t0=time.time()
    try:
        res = explore(lambda: run(cls, npts=npts), max_paths=20000)
    except Exception as e:
        print(cls.__name__, npts, 'ERR', repr(e)[:200]); continue
    m, sf, pdf = res[0][1]
    print(cls.__name__, npts, 'paths', len(res), round(time.time()-t0,2), 'sf[2,1,0]=', str(sf[2,1,0])[:300].replace('\n',' '))

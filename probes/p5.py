import numpy as np, z3, time, logging
import sym
from sym import *
from flodym import *
import flodym.mfa_system

D = {
 't': Dimension(name='Time', letter='t', items=[1,2]),
 'a': Dimension(name='Aa', letter='a', items=['a1','a2']),
 'b': Dimension(name='Bb', letter='b', items=['b1','b2']),
}
dims = DimensionSet(dim_list=list(D.values()))
def run(with_stock=True, tol=None):
    procs = make_processes(['sysenv','p1','p2'])
    fd = [FlowDefinition(from_process='sysenv', to_process='p1', dim_letters=('t','a')),
          FlowDefinition(from_process='p1', to_process='p2', dim_letters=('a','t','b')),
          FlowDefinition(from_process='p2', to_process='sysenv', dim_letters=('t',))]
    flows = make_empty_flows(procs, fd, dims)
    for i,(n,f) in enumerate(flows.items()):
        f.values = symarray(f"f{i}", f.dims.shape)
    stocks = {}
    if with_stock:
        sd = [StockDefinition(name='s', process='p2', dim_letters=('t','b'), subclass=SimpleFlowDrivenStock)]
        stocks = make_empty_stocks(sd, procs, dims)
        s = stocks['s']
        s.inflow.values = symarray('si', s.dims.shape); s.outflow.values = symarray('so', s.dims.shape); s.stock.values = symarray('ss', s.dims.shape)
    mfa = MFASystem(dims=dims, parameters={}, processes=procs, flows=flows, stocks=stocks)
    try:
        mfa.check_mass_balance(tolerance=tol)
        return ('ok', mfa)
    except Exception as e:
        return (type(e).__name__ + ':' + str(e)[:80], mfa)

for ws in [True, False]:
  for tol in [SymReal(z3.Real('tol')), None]:
    t0=time.time()
    try:
        res = explore(lambda: run(ws, tol), max_paths=3000)
    except Exception as e:
        print(ws, tol, 'ERR', repr(e)[:300]); continue
    from collections import Counter
    print(ws, tol, 'paths', len(res), round(time.time()-t0,2), Counter(r[1][0][:40] for r in res if r[1]).most_common(4))

import numpy as np
from flodym import *
T = Dimension(name='Time', letter='t', items=[2000,2001,2002,2004,2008])
dims = DimensionSet(dim_list=[T])
lt = LogNormalLifetime(dims=dims, mean=3.0, std=1.0)
st = InflowDrivenDSM(dims=dims, lifetime_model=lt)
st.inflow.values[...] = [1,2,3,4,5.]
st.compute()
dt = st._t.interval_lengths
print('dt', dt)
ds = np.diff(st.stock.values, prepend=0)
print('ds', ds)
print('dt*(in-out)', dt*(st.inflow.values-st.outflow.values))
print('cum in - cum out', np.cumsum(dt*st.inflow.values)-np.cumsum(dt*st.outflow.values), 'stock', st.stock.values)
st.check_stock_balance()
print(st.get_stock_balance())

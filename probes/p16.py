import numpy as np, z3, time
import sym
from sym import *
from flodym import *
from flodym.lifetime_models import LifetimeModel
import flodym.stocks, flodym.lifetime_models
class Shim:
    def __init__(self, real): self._real = real
    def __getattr__(self, k): return getattr(self._real, k)
    def zeros(self, shape, dtype=None, **kw):
        a = np.empty(shape, dtype=object); a[...] = 0; return a
    def allclose(self, a, b, **kw): return False
flodym.stocks.np = Shim(np); flodym.lifetime_models.np = Shim(np)
EXTRA = []
CNT = [0]
def solve_triangular_stub(a, b, lower=False, **kw):
    n = a.shape[0]; assert a.shape == (n,n) and b.shape == (n,)
    CNT[0] += 1
    x = np.empty(n, dtype=object)
    for i in range(n): x[i] = SymReal(z3.Real(f"lap{CNT[0]}_{i}"))
    for i in range(n):
        js = range(i+1) if lower else range(i, n)
        EXTRA.append(z3.Sum([a[i,j].t * x[j].t for j in js]) == sym._lift(b[i]))
    return x
flodym.stocks.solve_triangular = solve_triangular_stub

class AnyLifetime(LifetimeModel):
    tag: str = 'sf'
    @property
    def prms(self): return {}
    def set_prms(self): pass
    def _survival_by_year_id(self, t, m):
        out = np.empty(t.shape, dtype=object)
        for idx in np.ndindex(*t.shape):
            out[idx] = SymReal(z3.Real(f"{self.tag}_{m}_" + "_".join(map(str, idx))))
        return out
def build(cls, n, k, drv, **kw):
    years = [SymReal(z3.Real(f"y{i}")) for i in range(n)]
    T = Dimension(name='Time', letter='t', items=years)
    R = Dimension(name='Reg', letter='r', items=[f"r{i}" for i in range(k)])
    dims = DimensionSet(dim_list=[T, R])
    lt = AnyLifetime(dims=dims)
    mk = lambda nm: StockArray(dims=dims, values=symarray(nm, dims.shape), name=nm)
    args = dict(stock=mk('s0'), inflow=mk('i0'), outflow=mk('o0'))
    args.update(drv(dims))
    st = cls(dims=dims, lifetime_model=lt, **args, **kw)
    st.compute()
    return st
sym.CTX = sym.Ctx()
for n in [5,6,7]:
    k=2
    EXTRA.clear()
    man = build(StockDrivenDSM, n, k, lambda d: dict(stock=StockArray(dims=d, values=symarray('S', d.shape))), solver='manual')
    lap = build(StockDrivenDSM, n, k, lambda d: dict(stock=StockArray(dims=d, values=symarray('S', d.shape))), solver='lapack')
    ys = [z3.Real(f"y{i}") for i in range(n)]
    base = [ys[i+1] > ys[i] for i in range(n-1)] + [man.lifetime_model.sf[c,c,r].t != 0 for c in range(n) for r in range(k)] + list(EXTRA)
    tot=0
    for name in ['inflow','outflow']:
        for idx in np.ndindex(n,k):
            s = z3.Solver(); s.set('timeout', 60000); s.add(*base)
            s.add(getattr(man,name).values[idx].t != getattr(lap,name).values[idx].t)
            t0=time.time(); r = s.check(); tot+=time.time()-t0
            if str(r)!='unsat': print('  ', n, name, idx, r)
    print('manual==lapack n',n,'total solver s', round(tot,2))
    # round trip ID -> SD
    EXTRA.clear()
    idm = build(InflowDrivenDSM, n, k, lambda d: dict(inflow=StockArray(dims=d, values=symarray('I', d.shape))))
    sd = build(StockDrivenDSM, n, k, lambda d: dict(stock=StockArray(dims=d, values=idm.stock.values.copy())), solver='manual')
    tot=0
    for name in ['inflow','outflow']:
        for idx in np.ndindex(n,k):
            s = z3.Solver(); s.set('timeout', 60000); s.add(*base)
            s.add(getattr(idm,name).values[idx].t != getattr(sd,name).values[idx].t)
            t0=time.time(); r = s.check(); tot+=time.time()-t0
            if str(r)!='unsat': print('  RT', n, name, idx, r)
    print('roundtrip n',n,'total solver s', round(tot,2))

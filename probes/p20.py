import z3, time
m,s,q,r = z3.Reals('m s q r')
E = m*m/q; V = 1 + s*s/(m*m)
pre = [m>0, s>0, q>0, q*q == m*m+s*s, r>0, r*r == V]
for name, goal in [('mean', E*r == m), ('var', E*E*V*(V-1) == s*s)]:
    sol = z3.Solver(); sol.set('timeout', 60000); sol.add(*pre); sol.add(z3.Not(goal)); t0=time.time(); print(name, sol.check(), round(time.time()-t0,3))
x,mu,sg = z3.Reals('x mu sg')
sol = z3.Solver(); sol.add(sg>0, x/sg - mu/sg != (x-mu)/sg); print('fold', sol.check())

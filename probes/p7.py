import numpy as np, z3, time, pandas as pd, traceback
import sym
from sym import *
from flodym import *
import flodym._df_to_flodym_array as conv
exec(open('p6.py').read().split("# setitem")[0].split("import flodym._df_to_flodym_array as conv")[1])
class Shim:
    def __init__(self, real): self._real = real
    def __getattr__(self, k): return getattr(self._real, k)
    def zeros(self, shape, dtype=None, **kw):
        a = np.empty(shape, dtype=object); a[...] = 0; return a
    float64 = object
conv.np = Shim(np)
sym.CTX = sym.Ctx()
x = mk('x', 'abc')
df = x.to_df()
try:
    FlodymArray.from_df(dims=x.dims, df=df)
except Exception as e:
    traceback.print_exc()

import numpy as np, z3, time, pandas as pd
import sym
from sym import *
from flodym import *
import flodym._df_to_flodym_array as conv

D = {
 'a': Dimension(name='Aa', letter='a', items=['a1','a2']),
 'b': Dimension(name='Bb', letter='b', items=['b1','b2','b3']),
 'c': Dimension(name='Cc', letter='c', items=[1,2], dtype=int),
}
def mk(name, letters):
    dims = DimensionSet(dim_list=[D[l] for l in letters])
    return FlodymArray(dims=dims, values=symarray(name, dims.shape))
# setitem
def run():
    tgt = mk('old', 'abc'); src = mk('s', 'cba')
    sub = Dimension(name='Bs', letter='s', items=['b3','b1'])
    tgt[{'a':'a2', 'b': sub}] = src[{'a':'a1','b':sub}]
    return tgt
res = explore(run); print('setitem paths', len(res)); print(res[0][1].values[1,:,0], res[0][1].values[0,0,0])
def run():
    tgt = mk('old', 'abc'); src = mk('s', 'ca')
    try:
        tgt[{'a':'a2', 'b': ['b3','b1'], 'c':[2,1]}] = mk('s','cb')[{'b':Dimension(name='Bs', letter='s', items=['b3','b1'])}]
    except Exception as e: return e
    return tgt
res = explore(run); print('setitem2 paths', len(res)); print(res[0][1] if not isinstance(res[0][1], FlodymArray) else res[0][1].values[1])

class Shim:
    def __init__(self, real): self._real = real
    def __getattr__(self, k): return getattr(self._real, k)
    def zeros(self, shape, dtype=None, **kw):
        a = np.empty(shape, dtype=object); a[...] = 0; return a
    float64 = object
conv.np = Shim(np)
def run():
    x = mk('x', 'abc')
    out = {}
    for kw in [dict(), dict(index=False), dict(dim_to_columns='Bb'), dict(dim_to_columns='c', index=False)]:
        df = x.to_df(**kw)
        if 'index' in kw:
            df = df.sample(frac=1, random_state=1)
        try:
            out[str(kw)] = FlodymArray.from_df(dims=x.dims, df=df)
        except Exception as e:
            out[str(kw)] = e
    return x, out
t0=time.time(); res = explore(run); print('df paths', len(res), time.time()-t0)
x, out = res[0][1]
for k,v in out.items():
    if isinstance(v, Exception): print(k, 'EXC', repr(v)[:300]); continue
    same = all(v.values[i] is x.values[i] or z3.eq(v.values[i].t, x.values[i].t) for i in np.ndindex(*x.values.shape))
    print(k, v.values.dtype, same)

#!/bin/bash
# Offline set-up: overlay venv over /venv with z3-solver (and cvc5) from the local wheelhouse.
set -e
cd "$(dirname "$0")"
if [ ! -x .venv/bin/python ] || ! .venv/bin/python -c 'import z3, numpy, pandas' 2>/dev/null; then
  rm -rf .venv
  /venv/bin/python -m venv .venv
  SP=$(.venv/bin/python -c 'import sysconfig; print(sysconfig.get_paths()["purelib"])')
  echo "import site; site.addsitedir('/venv/lib/python3.12/site-packages')" > "$SP/base.pth"
  PIP_NO_INDEX=1 .venv/bin/pip install -q --no-index --find-links /opt/veriftools/wheels z3-solver cvc5 >/dev/null 2>&1 \
    || PIP_NO_INDEX=1 .venv/bin/pip install -q --no-index --find-links /opt/veriftools/wheels z3-solver
fi
.venv/bin/python -c 'import z3; print("z3", z3.get_version_string())'

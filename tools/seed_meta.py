#!/usr/bin/env python3
"""tools/seed_meta.py <seed dir> <property> <detected_by> <result text> : write meta.json for a kept seeded change"""
import json, sys, os, re
d, prop, det, res = sys.argv[1:5]
notes = open(os.path.join(d, "notes.md")).read() if os.path.exists(os.path.join(d, "notes.md")) else ""
meta = dict(
    property=prop,
    origin="written by an independent sub-agent that saw only the property text and its own scratch worktree of /repo",
    needs_to_manifest=notes.strip()[:1500],
    confirmed=dict(
        how="tools/seed_verify.sh <dir>: scratch worktree of /repo HEAD; demo.py exits 0 on the clean tree; patch applied with git apply; "
            "baseline pytest (81 tests) still passes; demo.py exits non-zero",
        result="clean demo exit 0, patched demo exit 1, 81 passed"),
    checks_run=f"tools/seed_run.sh {d}/patch.diff {det} quick   (git -C /repo apply; ./check {det} quick; git -C /repo checkout -- .)",
    detected_by=det, detection=res)
json.dump(meta, open(os.path.join(d, "meta.json"), "w"), indent=1)

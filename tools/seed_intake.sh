#!/bin/bash
# tools/seed_intake.sh <worktree prefix, e.g. /tmp/wt6_> <ID>... : verify the two seeds an agent left in <prefix><ID>/_seed/{1,2},
# copy the confirmed ones to seeded/<ID>_<next k>/ and run the property's quick check against each (first-run result).
PFX=$1; shift
cd "$(dirname "$0")/.."
for p in "$@"; do
  for k in 1 2; do
    src=$PFX$p/_seed/$k
    [ -f $src/patch.diff ] || { echo "$p/$k: no patch"; continue; }
    v=$(tools/seed_verify.sh $src)
    case "$v" in *"clean_demo_exit=0 patched_demo_exit=1 tests: 81 passed"*) ;; *) echo "$p/$k REJECTED: $v"; continue;; esac
    n=$(ls -d seeded/${p}_* 2>/dev/null | wc -l); d=seeded/${p}_$((n+1)); mkdir -p $d; cp $src/patch.diff $src/demo.py $src/notes.md $d/ 2>/dev/null
    r=$(TAILN=1 timeout 1200 tools/seed_run.sh $d/patch.diff $p quick 2>&1 | tr '\n' ' ' | cut -c1-260)
    echo "$d :: $(head -1 $d/notes.md | cut -c1-100) :: $r"
  done
  git -C /repo worktree remove --force $PFX$p 2>/dev/null
done
git -C /repo worktree prune

#!/usr/bin/env python3
"""Regenerates /verif/MANIFEST.json from the table below (keeps it schema-valid)."""
import json, os, sys

V = os.path.dirname(os.path.dirname(os.path.abspath(__file__)))
BASE = json.load(open("/root/.vp/BASELINE.json"))["cmd"].replace("--junitxml=<file>", "--junitxml=/tmp/flodym_baseline_off.junit.xml")

COMMON_NOTE = ("Trusted: CPython operator dispatch, numpy's object-dtype loops and einsum, z3 5.1.0. Exact real arithmetic "
               "(no IEEE rounding/overflow/inf). Configurations (shapes, dimension orders, key forms, graphs) are enumerated inside the "
               "bounds written into the evidence; values are universally quantified by the solver. Every counterexample is replayed on the "
               "unstubbed float64 code before it is reported.")

CHECKS = {
    # id: (technique, level text, design_ref, extra note)
}

NOT_APPLICABLE = {
}


def load_tables():
    sys.path.insert(0, V)
    from tools import manifest_table as T
    return T.CHECKS, T.NOT_APPLICABLE


def main():
    checks, na = load_tables()
    props = [json.loads(l)["id"] for l in open(os.path.join(V, "properties.jsonl"))]
    m = dict(
        version=1,
        setup_cmd="./setup.sh",
        hooks=dict(guard="PIK_PIAM_FLODYM_VERIF", enable="no source hooks: stubs are installed into flodym's module namespaces at run time by /verif/svx/shims.py",
                   baseline_off_cmd=BASE, source_commits=[], add_only=True),
        engines=[dict(name="svx", path="svx/", serves_properties=sorted(checks), kind_free_text="symbolic execution of the real flodym source on z3 real terms inside numpy object arrays; per-path re-execution; z3 decides obligations; float64 replay")],
        checks=[],
        notes="See DESIGN.md. exit 0 held / 1 reproduced violation / 2 inconclusive / 3 harness error.",
        not_applicable=[],
    )
    for pid in props:
        if pid in checks:
            c = checks[pid]
            m["checks"].append(dict(
                property_id=pid, quick_cmd=f"./check {pid} quick", thorough_cmd=f"./check {pid} thorough",
                evidence_file=f"/verif/evidence/{pid}.json", replay_cmd_template=f"./check {pid} --replay {{path}}", engine="svx",
                level_claimed=dict(category="other", text=c["text"], design_ref=c["ref"]),
                level_note=c.get("note", "") + " " + COMMON_NOTE, technique=c["technique"]))
        else:
            m["not_applicable"].append(dict(property_id=pid, reason=na.get(pid, "no check registered yet (work in progress); nothing is claimed for this property")))
    json.dump(m, open(os.path.join(V, "MANIFEST.json"), "w"), indent=1)
    import jsonschema
    jsonschema.validate(m, json.load(open("/root/.vp/MANIFEST.schema.json")))
    print("MANIFEST.json written:", len(m["checks"]), "checks,", len(m["not_applicable"]), "not applicable")


if __name__ == "__main__":
    main()

#!/bin/bash
# tools/seed_regress.sh [seed dirs...] : run the property's quick check against every kept seeded change (scratch worktree each)
# and print one line per seed: <seed> <property checked> exit=<rc>.  Expected: exit=1 for every seed not marked NOT detected.
cd "$(dirname "$0")/.."
DIRS=${@:-seeded/*/}
for d in $DIRS; do
  d=${d%/}; s=$(basename $d); p=${s%%_*}
  by=$(python3 -c "import json,sys; print(json.load(open('$d/meta.json')).get('detected_by','$p'))" 2>/dev/null || echo $p)
  r=$(TAILN=1 timeout 2400 tools/seed_run.sh $d/patch.diff $by quick 2>&1 | tail -1)
  echo "$s $by $r"
done

#!/bin/bash
# tools/seed_run.sh <patch.diff> <ID> [tier] [extra args]: run a check against /repo's HEAD + the patch.
# Default: a scratch worktree of /repo under /tmp with the patch applied, checked through FLODYM_SRC (so that
# long-running checks on /repo itself are not disturbed).  With SEED_IN_REPO=1 the patch is applied to /repo
# itself (git -C /repo apply ...) and undone straight afterwards (git -C /repo checkout -- .).
P=$(readlink -f "$1"); ID=$2; TIER=${3:-quick}; shift 3 2>/dev/null
cd /verif
if [ -n "$SEED_IN_REPO" ]; then
  git -C /repo diff --quiet || { echo "/repo not clean"; exit 9; }
  git -C /repo apply "$P" || { echo "patch does not apply"; exit 9; }
  ./check $ID $TIER "$@" >/tmp/seed_run.$$.out 2>&1; rc=$?
  git -C /repo checkout -- .
else
  WT=$(mktemp -d /tmp/seedwt.XXXXXX); rmdir $WT
  git -C /repo worktree add -q --detach $WT HEAD || exit 9
  git -C $WT apply "$P" || { echo "patch does not apply"; git -C /repo worktree remove --force $WT; exit 9; }
  FLODYM_SRC=$WT ./check $ID $TIER "$@" >/tmp/seed_run.$$.out 2>&1; rc=$?
  git -C /repo worktree remove --force $WT
fi
grep -v "^VIOLATION" /tmp/seed_run.$$.out | tail -${TAILN:-6} | cut -c1-${CUTN:-260}
echo "exit=$rc violations=$(grep -c '^VIOLATION' /tmp/seed_run.$$.out)"
rm -f /tmp/seed_run.$$.out

#!/bin/bash
# tools/seed_run.sh <patch.diff> <ID> [tier] [extra args]: apply to /repo, run the check, undo straight afterwards
P=$(readlink -f "$1"); ID=$2; TIER=${3:-quick}; shift 3 2>/dev/null
git -C /repo diff --quiet || { echo "/repo not clean"; exit 9; }
git -C /repo apply "$P" || { echo "patch does not apply"; exit 9; }
cd /verif; ./check $ID $TIER "$@" 2>&1 | grep -v "^VIOLATION" | tail -${TAILN:-6} | cut -c1-${CUTN:-260}; ./check $ID $TIER "$@" >/tmp/seed_run.out 2>&1; echo "exit=$? violations=$(grep -c '^VIOLATION' /tmp/seed_run.out)"
git -C /repo checkout -- .

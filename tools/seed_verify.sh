#!/bin/bash
# tools/seed_verify.sh <seed dir with patch.diff demo.py> : confirm in a scratch worktree that the change
# applies, passes the 81 baseline tests, and that demo.py passes without and fails with it.
set -u
S=$(readlink -f "$1"); WT=$(mktemp -d /tmp/seedwt.XXXXXX); rmdir $WT
git -C /repo worktree add -q --detach $WT HEAD || exit 9
cd $WT
PYTHONPATH=$WT /venv/bin/python $S/demo.py >/dev/null 2>&1; clean_demo=$?
git apply $S/patch.diff || { echo "patch does not apply"; cd /; git -C /repo worktree remove --force $WT; exit 9; }
t=$(PYTHONPATH=$WT /venv/bin/python -m pytest -q -p no:cacheprovider 2>&1 | tail -1)
PYTHONPATH=$WT /venv/bin/python $S/demo.py >/dev/null 2>&1; patched_demo=$?
cd /; git -C /repo worktree remove --force $WT
echo "clean_demo_exit=$clean_demo patched_demo_exit=$patched_demo tests: $t"

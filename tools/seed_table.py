#!/usr/bin/env python3
"""tools/seed_table.py : regenerate the table of section 7 of DESIGN.md from seeded/*/meta.json
(one row per kept change: id, property, the check's verdict as recorded in meta.json "detection")."""
import glob
import json
import os
import re

root = os.path.dirname(os.path.dirname(os.path.abspath(__file__)))
rows = []
for m in glob.glob(os.path.join(root, "seeded", "*", "meta.json")):
    sid = os.path.basename(os.path.dirname(m))
    d = json.load(open(m))
    p, k = sid.split("_")
    det = d["detection"].replace("\n", " ").replace("|", "/")
    rows.append(((int(p[1:]), int(k)), f"| `{sid}` | {d['property']}" + (f" (reported by {d['detected_by']})" if d["detected_by"] not in (d["property"], "-", "") else "") + f" | {det} |"))
rows.sort()
path = os.path.join(root, "DESIGN.md")
lines = open(path).read().split("\n")
idx = [i for i, l in enumerate(lines) if re.match(r"\| `C\d\d_\d+` \|", l)]
assert idx and idx[-1] - idx[0] + 1 == len(idx), "table rows are not contiguous"
lines[idx[0]:idx[-1] + 1] = [r for _k, r in rows]
open(path, "w").write("\n".join(lines))
print(len(rows), "rows")

#!/usr/bin/env python3
"""tools/stub_selftest.py : conformance of the numpy stand-ins (svx/shims.py, SymArr kernels in svx/sym.py) with numpy.

Every case is one expression written against a module-like object `np_`.  It is evaluated twice:
  * with the real numpy on float64 arrays (NaN entries, mixed signs, several memory layouts), and
  * with NpShim on object arrays holding the same numbers as literal SymReal terms (NaN as the NaN flag),
and the two results must agree in shape, memory layout (C / F contiguity of freshly created buffers), value and NaN-ness
entry by entry.  The symbolic side is evaluated by z3's simplifier (all terms are ground).  This guards against a stub
that models numpy wrongly in a direction that hides changes (as the builtin-max stub once did).

Exit 0: all cases agree.  Exit 1: a divergence (printed).  Run: .venv/bin/python tools/stub_selftest.py
"""
from __future__ import annotations

import itertools
import math
import sys
from fractions import Fraction

import numpy as np
import z3

sys.path.insert(0, "/verif")
from svx import shims, sym  # noqa: E402
from svx.sym import SymArr, SymBool, SymReal  # noqa: E402

NAN = float("nan")


def lift(a):
    a = np.asarray(a, dtype=np.float64)
    out = np.empty_like(a, dtype=object)  # keeps the layout of a
    for idx in np.ndindex(*a.shape):
        x = float(a[idx])
        out[idx] = SymReal(z3.RealVal(0), nan=z3.BoolVal(True)) if x != x else SymReal.lit(Fraction(x))
    return out.view(SymArr) if out.shape else out[()]


def lower1(x):
    if isinstance(x, SymReal):
        if x.nan is not None and z3.is_true(z3.simplify(x.nan)):
            return NAN
        v = z3.simplify(x.t)
        if not z3.is_rational_value(v):
            raise ValueError(f"not ground: {v}")
        return float(Fraction(v.numerator_as_long(), v.denominator_as_long()))
    if isinstance(x, SymBool):
        v = z3.simplify(x.t)
        if z3.is_true(v):
            return True
        if z3.is_false(v):
            return False
        raise ValueError(f"not ground: {v}")
    if isinstance(x, Fraction):
        return float(x)
    return x


def lower(r):
    if isinstance(r, np.ndarray) and r.dtype == object:
        out = np.empty(r.shape, dtype=object)
        for idx in np.ndindex(*r.shape):
            out[idx] = lower1(r[idx])
        try:
            return out.astype(float) if not all(isinstance(v, (bool, np.bool_)) for v in out.flat) or out.size == 0 else out.astype(bool)
        except Exception:
            return out
    if isinstance(r, np.ndarray):
        return r
    return lower1(r)


def same(a, b):
    a, b = np.asarray(a), np.asarray(b)
    if a.shape != b.shape:
        return f"shape {a.shape} vs {b.shape}"
    af, bf = a.astype(float), b.astype(float)
    if not np.array_equal(np.isnan(af), np.isnan(bf)):
        return f"NaN pattern {af.tolist()} vs {bf.tolist()}"
    if not np.allclose(af, bf, rtol=1e-12, atol=0, equal_nan=True):
        return f"values {af.tolist()} vs {bf.tolist()}"
    return None


def layouts(a):
    a = np.asarray(a, dtype=np.float64)
    yield "C", np.ascontiguousarray(a)
    if a.ndim >= 2:
        yield "F", np.asfortranarray(a)
        yield "T-view", np.ascontiguousarray(a.T).T
        wide = np.concatenate([a, a], axis=-1)
        yield "strided", wide[..., ::2]


A2 = np.array([[1.5, -2.25, 0.0], [NAN, 4.0, -0.5]])
B2 = np.array([[0.5, NAN, -1.0], [2.0, 4.0, 3.5]])
V1 = np.array([3.0, NAN, -1.0, 2.0])
V0 = np.array([-3.0, 1.0, 2.5, 0.0])
POS = np.array([[1.0, 2.0, 4.0], [0.5, 8.0, 0.25]])

def _guarded(n, a, b):
    with n.errstate(divide="ignore", invalid="ignore"):
        return n.where(b != 0.0, a / b, 0.0)


# name -> (function(np_, *arrays), argument arrays, check_layout)
CASES = {
    "zeros": (lambda n: n.zeros((2, 3)), [], True),
    "ones": (lambda n: n.ones((3,)), [], True),
    "full": (lambda n: n.full((2, 2), 1.5), [], True),
    "empty.shape": (lambda n: n.zeros(n.empty((2, 3)).shape), [], True),
    "zeros_like": (lambda n, a: n.zeros_like(a), [A2], True),
    "ones_like": (lambda n, a: n.ones_like(a), [A2], True),
    "full_like": (lambda n, a: n.full_like(a, 2.5), [A2], True),
    "zeros_like(dtype=float)": (lambda n, a: n.zeros_like(a, dtype=float), [A2], True),
    "reshape_of_zeros_like_is_view": (lambda n, a: n.zeros(1) + float(n.shares_memory(n.zeros_like(a), n.zeros_like(a)) or 0) + (1.0 if (lambda z: n.shares_memory(z, z.reshape(z.shape[0], -1)))(n.zeros_like(a)) else 0.0), [A2], False),
    "abs": (lambda n, a: n.abs(a), [A2], False),
    "sign": (lambda n, a: n.sign(a), [A2], False),
    "maximum": (lambda n, a, b: n.maximum(a, b), [A2, B2], False),
    "minimum": (lambda n, a, b: n.minimum(a, b), [A2, B2], False),
    "maximum_scalar": (lambda n, a: n.maximum(a, 0.0), [A2], False),
    "max_all": (lambda n, a: n.max(a), [A2], False),
    "max_all_nonan": (lambda n, a: n.max(a), [POS], False),
    "max_axis0": (lambda n, a: n.max(a, axis=0), [A2], False),
    "max_axis1": (lambda n, a: n.max(a, axis=1), [B2], False),
    "min_axis1": (lambda n, a: n.min(a, axis=1), [B2], False),
    "max_initial": (lambda n, a: n.max(-n.abs(a), initial=0.0), [POS], False),
    "max_abs": (lambda n, a: n.max(n.abs(a)), [A2], False),
    "builtin_max_nan_first": (lambda n, a: n.zeros(1) + max([a[1], a[0], a[2]]), [V1], False),
    "builtin_max_nan_later": (lambda n, a: n.zeros(1) + max([a[0], a[1], a[2]]), [V1], False),
    "builtin_max_nan_last": (lambda n, a: n.zeros(1) + max(a[3], a[1]), [V1], False),
    "builtin_max_plain": (lambda n, a: n.zeros(1) + max(list(a)), [V0], False),
    "sum_all": (lambda n, a: n.sum(a), [A2], False),
    "sum_axis0": (lambda n, a: a.sum(axis=0), [POS], False),
    "sum_axis_tuple": (lambda n, a: a.sum(axis=(0, 1)), [POS], False),
    "cumsum": (lambda n, a: n.cumsum(a, axis=1), [POS], False),
    "argmax_first_nonzero": (lambda n, a: n.zeros(1) + n.argmax(a != 0.0), [np.array([0.0, 0.0, 2.5, 0.0, 1.0])], False),
    "argmax_all_zero": (lambda n, a: n.zeros(1) + n.argmax(a != 0.0), [np.zeros(3)], False),
    "isclose": (lambda n, a, b: n.isclose(a, b).astype(float), [np.array([[1.0, 1000003.0, 0.0], [NAN, 2.0, 5e-9]]), np.array([[1.0, 1000000.0, 1e-9], [NAN, 2.1, 0.0]])], False),
    "errstate_guarded_quotient": (lambda n, a, b: _guarded(n, a, b), [np.array([[1.5, 0.0, -2.0], [4.0, NAN, 0.0]]), np.array([[0.5, 0.0, 0.0], [-2.0, 1.0, 3.0]])], False),
    "asarray_float_is_no_copy": (lambda n, a: n.zeros(1) + (1.0 if n.shares_memory(n.asarray(a, dtype=float), a) else 0.0), [A2], False),
    "array_float_is_a_copy": (lambda n, a: n.zeros(1) + (1.0 if n.shares_memory(n.array(a, dtype=float), a) else 0.0), [A2], False),
    "isclose_where": (lambda n, a, b: n.where(n.isclose(a, b), 0.0, a - b), [np.array([[1.0, 1000003.0], [2.0, 100000.5]]), np.array([[1.0, 1000000.0], [2.1, 100000.0]])], False),
    "bool_arith": (lambda n, a: 1.0 - (a > 0.0), [POS - 1.0], False),
    "bool_mask_times_values": (lambda n, a: (a > 0.0) * a + (a <= 0.0) * 2.5, [POS - 1.0], False),
    "nan_to_num": (lambda n, a: n.nan_to_num(a), [A2], False),
    "nan_to_num_inplace": (lambda n, a: _n2n(n, a), [A2], False),
    "gradient": (lambda n, a: n.gradient(a), [np.array([2000.0, 2001.0, 2003.0, 2006.5, 2010.0])], False),
    "diff": (lambda n, a: n.diff(a, axis=0, prepend=0), [POS], False),
    "lt": (lambda n, a, b: (a < b).astype(float), [A2, B2], False),
    "le": (lambda n, a, b: (a <= b).astype(float), [A2, B2], False),
    "gt_scalar": (lambda n, a: (a > 0.0).astype(float), [A2], False),
    "eq": (lambda n, a, b: (a == b).astype(float), [A2, B2], False),
    "ne": (lambda n, a, b: (a != b).astype(float), [A2, B2], False),
    "not_le": (lambda n, a: (~(a <= 1.0)).astype(float), [A2], False),
    "isnan": (lambda n, a: n.isnan(a).astype(float), [A2], False),
    "any_isnan": (lambda n, a: n.zeros(1) + (1.0 if n.any(n.isnan(a)) else 0.0), [A2], False),
    "any_neg": (lambda n, a: n.zeros(1) + (1.0 if n.any(a < -1.0) else 0.0), [A2], False),
    "any_neg_vs_nan": (lambda n, a: n.zeros(1) + (1.0 if n.any(a < -(a[1, 0] * 2)) else 0.0), [A2], False),
    "where": (lambda n, a: n.where(n.isnan(a), 0.0, n.abs(a)), [A2], False),
    "where_cmp": (lambda n, a, b: n.where(a < b, a, b), [A2, B2], False),
    "clip": (lambda n, a: n.clip(a, -1.0, 2.0), [POS - 1.0], False),
    "masked_assign": (lambda n, a: _masked(n, a), [POS - 1.0], False),
    "divide_where": (lambda n, a, b: n.divide(a, b, out=n.zeros_like(a), where=b > 1.0), [POS, POS * 1.5 - 1], False),
    "mul_zero": (lambda n, a: a * 0.0, [A2], False),
    "add": (lambda n, a, b: a + b, [A2, B2], False),
    "mul": (lambda n, a, b: a * b, [A2, B2], False),
    "div": (lambda n, a, b: a / b, [A2, POS], False),
    "neg": (lambda n, a: -a, [A2], False),
    "einsum_outer": (lambda n, a, b: n.einsum("ij,ik->ijk", a, b), [POS, POS + 1], False),
    "einsum_sum": (lambda n, a: n.einsum("ij->j", a), [POS], False),
    "einsum_scalar": (lambda n, a: n.einsum("ij->", a), [POS], False),
    "tile_reshape": (lambda n, a: n.tile(a, (2, 1, 1)), [POS], False),
    "moveaxis": (lambda n, a: n.moveaxis(a, 0, -1), [POS], False),
    "transpose": (lambda n, a: n.transpose(a, (1, 0)), [POS], False),
    "array_copy": (lambda n, a: n.array(a, dtype=float), [POS], True),
    "asarray_float": (lambda n, a: n.asarray(a, dtype=float), [POS], False),
}


def _n2n(n, a):
    a = a.copy()
    n.nan_to_num(a, copy=False, nan=7.5)
    return a


def _masked(n, a):
    a = a.copy()
    a[a < 0.0] = 0.0
    return a


def run_case(name, fn, args, check_layout):
    bad = []
    combos = list(itertools.product(*[list(layouts(a)) for a in args])) if args else [()]
    for combo in combos:
        tags = [t for t, _ in combo]
        real = fn(np, *[a.copy(order="K") if t in ("C", "F") else a for t, a in combo])
        shim = shims.NpShim()
        sym.set_ctx(sym.Ctx())  # ground conditions are decided by the path solver like any other branch
        try:
            got = fn(_Np(shim), *[lift(a) for _t, a in combo])
        finally:
            sym.set_ctx(None)
        d = same(real, lower(got))
        if d:
            bad.append(f"{name} layouts={tags}: {d}")
        if check_layout and isinstance(real, np.ndarray) and isinstance(got, np.ndarray) and real.ndim >= 2:
            fr, fg = real.flags, got.flags
            if (fr["C_CONTIGUOUS"], fr["F_CONTIGUOUS"]) != (fg["C_CONTIGUOUS"], fg["F_CONTIGUOUS"]):
                bad.append(f"{name} layouts={tags}: memory layout C/F {(fr['C_CONTIGUOUS'], fr['F_CONTIGUOUS'])} vs {(fg['C_CONTIGUOUS'], fg['F_CONTIGUOUS'])}")
    return bad


class _Np:
    """NpShim first, real numpy for everything it does not define (NpShim delegates itself via __getattr__)"""

    def __init__(self, shim):
        self._s = shim

    def __getattr__(self, k):
        return getattr(self._s, k)


class _null:
    def __enter__(self):
        return self

    def __exit__(self, *a):
        return False


def main():
    import builtins

    bad = []
    real_max = builtins.max
    for name, (fn, args, cl) in CASES.items():
        try:
            if name.startswith("builtin_max"):
                # the harness replaces the name `max` in flodym.mfa_system; here the case is evaluated with it in scope
                g = dict(fn.__globals__)
                import types

                def mk(m):
                    f2 = types.FunctionType(fn.__code__, {**g, "max": m}, name)
                    return f2

                real = mk(real_max)(np, *args)
                sym.set_ctx(sym.Ctx())
                try:
                    got = mk(shims.merged_max)(_Np(shims.NpShim()), *[lift(a) for a in args])
                finally:
                    sym.set_ctx(None)
                d = same(real, lower(got))
                if d:
                    bad.append(f"{name}: {d}")
                continue
            bad += run_case(name, fn, args, cl)
        except BaseException as e:  # a stub that cannot evaluate a case is reported, not hidden (engine signals are BaseExceptions)
            if isinstance(e, (KeyboardInterrupt, SystemExit)):
                raise
            bad.append(f"{name}: {type(e).__name__}: {str(e)[:160]}")
    for b in bad:
        print("DIVERGENCE", b)
    print(f"stub self-test: {len(CASES)} cases, {len(bad)} divergences")
    return 1 if bad else 0


if __name__ == "__main__":
    sys.exit(main())

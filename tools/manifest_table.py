_SYM = "bounded symbolic execution of the real flodym code on z3 real terms in numpy object arrays; "
CHECKS = {
    "C01": dict(technique=_SYM + "z3 decides per-entry by-label oracle equalities for every operator form",
                text="For every enumerated operand configuration (ordered dimension subsets incl. 0-dim, lengths, 22 operator forms) z3 shows for ALL real entry values "
                     "that each result entry equals the by-label oracle written from the property text; configurations are bounded enumeration, values are decided, not sampled.",
                ref="DESIGN.md section 4 C01"),
    "C03": dict(technique=_SYM + "time items, drivers and the whole survival table symbolic; z3 (nlsat, lemma chaining, purified quotients) decides the stock-step identity",
                text="The time grid itself, all driver values and the whole survival table (any lifetime model) are symbolic; z3 proves the conservation identity per entry for "
                     "every stock class and solver inside n<=4 (quick) / 6 (thorough), plus the five shipped lifetime classes with scipy kernels as uninterpreted functions.",
                ref="DESIGN.md section 4 C03", note="scipy.linalg.solve_triangular enters by its documented contract; np.allclose (warning only) is nondeterministic."),
    "C05": dict(technique=_SYM + "old target entries, sources and right-hand sides symbolic; frame condition and sum-by-label decided per entry",
                text="One assignment from an arbitrary target state (all old entries symbolic) covers histories of any length over the enumerated key/source forms; "
                     "explicit 2- and 3-step histories are compared with a last-writer-wins model.",
                ref="DESIGN.md section 4 C05"),
    "C06": dict(technique=_SYM + "identical-symbol placement for every selector tuple and key spelling; error keys must raise on every path",
                text="Every combination of per-dimension selector kinds (none/item/ordered subset Dimension/list) and key spellings inside the bound is executed on symbolic "
                     "entries; each result entry must be the identical input symbol; items_where forks are solver-checked per entry.",
                ref="DESIGN.md section 4 C06"),
    "C07": dict(technique=_SYM + "linear marginal-sum identities and bilinear share identities decided by z3",
                text="Marginal sums, prefix sums, casts and shares are compared with by-label oracles for all values; shares use nonlinear queries under total != 0.",
                ref="DESIGN.md section 4 C07"),
    "C08": dict(technique=_SYM + "scipy kernels as uninterpreted functions: congruence + linear arithmetic on the ages; ground range/monotonicity axioms; exact rational checks of the 10 quadrature rules; QF_NRA lemmas for the parameter transforms",
                text="Data flow from time grid, parameters (scalar / arrays in any dimension order / time-varying) and quadrature rule into the distribution is decided for all "
                     "grids and parameter values; validity of the table follows from the kernels' range/monotonicity axioms; scipy's kernels themselves are trusted.",
                ref="DESIGN.md section 4 C08", note="scipy.stats sf kernels are trusted; float rounding of node mapping and ages is outside the claim."),
    "C09": dict(technique=_SYM + "cohort identities over symbolic grid, drivers and survival table",
                text="As C03, for the cohort tables: sums over cohorts, zero upper triangle, inflow x dt x survival, monotone cohorts under inflow>=0, per-cohort conservation.",
                ref="DESIGN.md section 4 C09"),
    "C10": dict(technique=_SYM + "inverse and solver-agreement identities with purified quotients and time-ordered lemma chaining",
                text="Round trips inflow->stock->inflow and stock->inflow->stock and manual-vs-lapack agreement are proved per entry for symbolic grids/tables with diagonal >= 1/20.",
                ref="DESIGN.md section 4 C10", note="LAPACK is trusted under scipy's documented contract (stub)."),
    "C16": dict(technique=_SYM + "relational (2-safety) obligations over pairs/triples of symbolic runs",
                text="Causality, superposition with symbolic alpha/beta, label independence, calendar-shift invariance (also through the real lifetime classes with UF kernels) and "
                     "impulse response are universally quantified statements decided per entry.",
                ref="DESIGN.md section 4 C16", note="stock-driven superposition is bounded to n=3."),
    "C17": dict(technique=_SYM + "all operation histories up to a bounded length compared term-by-term with a freshly built stock",
                text="Every sequence over {set driver, set_prms, compute, read sf, read pdf} of bounded length on each stock class x lifetime class, plus a system compute() loop; "
                     "a stale table shows up as terms over the old parameter symbols.",
                ref="DESIGN.md section 4 C17"),
}
NOT_APPLICABLE = {
    "C18": "building a system is pure assembly through pydantic-core validation and compiled file parsers; every input that could be symbolic "
           "(names, letters, ids, file text) is rebuilt as a concrete str/int before any flodym line sees it, so no symbolic state reaches the code "
           "(DESIGN.md section 5)",
}

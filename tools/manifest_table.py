CHECKS = {
    "C01": dict(
        technique="bounded symbolic execution of FlodymArray operators on z3 real terms (object arrays); z3 decides per-entry label-oracle equalities",
        text="For every enumerated operand configuration (ordered dimension subsets, lengths, operator form) the solver shows for ALL real entry "
             "values that each result entry equals the by-label oracle; configurations are bounded enumeration, values are decided, not sampled.",
        ref="DESIGN.md section 4 C01"),
}
NOT_APPLICABLE = {
    "C18": "building a system is pure assembly through pydantic-core validation and compiled file parsers; every input that could be symbolic "
           "(names, letters, ids, file text) is rebuilt as a concrete str/int before any flodym line sees it, so no symbolic state reaches the code "
           "(DESIGN.md section 5)",
}

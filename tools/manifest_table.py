_SYM = "bounded symbolic execution of the real flodym code on z3 real terms in numpy object arrays; "
CHECKS = {
    "C01": dict(technique=_SYM + "z3 decides per-entry by-label oracle equalities for every operator form",
                text="For every enumerated operand configuration (ordered dimension subsets incl. 0-dim, lengths, 22 operator forms) z3 shows for ALL real entry values "
                     "that each result entry equals the by-label oracle written from the property text; configurations are bounded enumeration, values are decided, not sampled.",
                ref="DESIGN.md section 4 C01"),
    "C03": dict(technique=_SYM + "time items, drivers and the whole survival table symbolic; z3 (nlsat, lemma chaining, purified quotients) decides the stock-step identity",
                text="The time grid itself, all driver values and the whole survival table (any lifetime model) are symbolic; z3 proves the conservation identity per entry for "
                     "every stock class and solver inside n<=4 (quick) / 6 (thorough), plus the five shipped lifetime classes with scipy kernels as uninterpreted functions.",
                ref="DESIGN.md section 4 C03", note="scipy.linalg.solve_triangular enters by its documented contract; np.allclose (warning only) is nondeterministic."),
    "C05": dict(technique=_SYM + "old target entries, sources and right-hand sides symbolic; frame condition and sum-by-label decided per entry",
                text="One assignment from an arbitrary target state (all old entries symbolic) covers histories of any length over the enumerated key/source forms; "
                     "explicit 2- and 3-step histories are compared with a last-writer-wins model.",
                ref="DESIGN.md section 4 C05"),
    "C06": dict(technique=_SYM + "identical-symbol placement for every selector tuple and key spelling; error keys must raise on every path",
                text="Every combination of per-dimension selector kinds (none/item/ordered subset Dimension/list) and key spellings inside the bound is executed on symbolic "
                     "entries; each result entry must be the identical input symbol; items_where forks are solver-checked per entry.",
                ref="DESIGN.md section 4 C06"),
    "C07": dict(technique=_SYM + "linear marginal-sum identities and bilinear share identities decided by z3",
                text="Marginal sums, prefix sums, casts and shares are compared with by-label oracles for all values; shares use nonlinear queries under total != 0.",
                ref="DESIGN.md section 4 C07"),
    "C08": dict(technique=_SYM + "scipy kernels as uninterpreted functions: congruence + linear arithmetic on the ages; ground range/monotonicity axioms; exact rational checks of the 10 quadrature rules; QF_NRA lemmas for the parameter transforms",
                text="Data flow from time grid, parameters (scalar / arrays in any dimension order / time-varying) and quadrature rule into the distribution is decided for all "
                     "grids and parameter values; validity of the table follows from the kernels' range/monotonicity axioms; scipy's kernels themselves are trusted.",
                ref="DESIGN.md section 4 C08", note="scipy.stats sf kernels are trusted; float rounding of node mapping and ages is outside the claim."),
    "C09": dict(technique=_SYM + "cohort identities over symbolic grid, drivers and survival table",
                text="As C03, for the cohort tables: sums over cohorts, zero upper triangle, inflow x dt x survival, monotone cohorts under inflow>=0, per-cohort conservation.",
                ref="DESIGN.md section 4 C09"),
    "C10": dict(technique=_SYM + "inverse and solver-agreement identities with purified quotients and time-ordered lemma chaining",
                text="Round trips inflow->stock->inflow and stock->inflow->stock and manual-vs-lapack agreement are proved per entry for symbolic grids/tables with diagonal >= 1/20.",
                ref="DESIGN.md section 4 C10", note="LAPACK is trusted under scipy's documented contract (stub)."),
    "C16": dict(technique=_SYM + "relational (2-safety) obligations over pairs/triples of symbolic runs",
                text="Causality, superposition with symbolic alpha/beta, label independence, calendar-shift invariance (also through the real lifetime classes with UF kernels) and "
                     "impulse response are universally quantified statements decided per entry.",
                ref="DESIGN.md section 4 C16", note="stock-driven superposition is bounded to n=3."),
    "C17": dict(technique=_SYM + "all operation histories up to a bounded length compared term-by-term with a freshly built stock",
                text="Every sequence over {set driver, set_prms, compute, read sf, read pdf} of bounded length on each stock class x lifetime class, plus a system compute() loop; "
                     "a stale table shows up as terms over the old parameter symbols.",
                ref="DESIGN.md section 4 C17"),
}

CHECKS.update({
    "C02": dict(technique=_SYM + "per-path raise/warn outcome vs. a by-label balance oracle; comparison kernels merged into ite terms; NaN by explicit flags",
                text="For every enumerated system graph, flow dimensionality, stock attachment and mode the solver shows, on every path check_mass_balance / check_flows take, that the "
                     "outcome (raise / warning / success, processes and flows named) agrees with the oracle balance for ALL values and tolerances, incl. the default tolerance and NaN flags; "
                     "a history harness re-checks after the values changed.",
                ref="DESIGN.md section 4 C02"),
    "C04": dict(technique=_SYM + "metamorphic: the same symbols under the same labels in every storage order; results compared by label",
                text="Every operation is run in canonical order and in every permutation of every participating array (incl. targets, DataFrame round trips, stacking, lifetime "
                     "parameters); results must agree by label for all values and follow the documented result order.",
                ref="DESIGN.md section 4 C04"),
    "C11": dict(technique=_SYM + "symbolic DataFrame cells through real pandas; int()/hash() of a cell are solver case splits over the numeric dimension items",
                text="to_df / from_df run through real pandas with symbolic cells for every layout x header style x permutation in the bound; every imported entry must be the identical "
                     "symbol of the row carrying its labels; value/item confusion paths are explored by case splits.",
                ref="DESIGN.md section 4 C11", note="CSV text round trip outside. Known findings listed in known_findings.txt."),
    "C12": dict(technique=_SYM + "enumerated data faults (single and pairs, every position) x symbolic cell values and old target values",
                text="Fault positions are enumerated (that part is fault enumeration); for each, the solver-side run shows for all values that faulty data is refused under the flags "
                     "that require it, that a failed import leaves the target identical, and that tolerated faults give zeros / ignored rows with every other entry in place.",
                ref="DESIGN.md section 4 C12"),
    "C13": dict(technique=_SYM + "inductive step from an arbitrary valid array state over a catalogue of well-formed and ill-formed calls",
                text="From an arbitrary state (all values symbolic) every catalogue operation keeps values.shape == dims.shape with distinct letters, and every ill-formed call raises and "
                     "leaves every array with identical terms and dimensions; pairs/triples of failed and successful calls are run in addition.",
                ref="DESIGN.md section 4 C13"),
    "C14": dict(technique="symbolic execution of DimensionSet with symbolic dimension letters (str subclass whose equality is a solver decision); ordered-list model under the path condition",
                text="One path stands for every alphabet with that equality pattern between letters: all pairs of sets up to size 3 (4), every operator, lookup and mutator, in-place and "
                     "out-of-place, with independence probes and 2-(3-)step histories, compared with an ordered-list model.",
                ref="DESIGN.md section 4 C14"),
    "C15": dict(technique=_SYM + "snapshot by term identity and write-through probes over the operation catalogue",
                text="For every catalogue operation: inputs hold the identical terms and Dimension objects afterwards (for all values, every path); fresh symbols written into a result, and "
                     "in-place edits of its dimension set, never appear in an input and vice versa.",
                ref="DESIGN.md section 4 C15"),
    "C19": dict(technique=_SYM + "identical-symbol placement in the exported dict / frames; DataFrame.to_csv replaced by a recorder",
                text="convert_to_dict (numpy and pandas), CSV exports (one frame per flow / stock quantity, sanitised distinct file names) and re-import through from_df are checked "
                     "cell by cell on symbolic systems; exporting leaves the system's terms unchanged.",
                ref="DESIGN.md section 4 C19", note="CSV text, pickle bytes and MFADefinition.to_dfs are outside the claim."),
    "C20": dict(technique=_SYM + "identical-symbol y/x/link values read from the real plotly figure objects and from recorded matplotlib calls",
                text="Sankey links (value = slice total, per item when split, source/target node indices, exclusions) and array-plot traces (y entries and x values per subplot and line "
                     "item, by name or letter, with and without x arrays) are compared with by-label oracles for all values.",
                ref="DESIGN.md section 4 C20", note="rendering outside; matplotlib at the Axes-call boundary."),
})

NOT_APPLICABLE = {
    "C18": "building a system is pure assembly through pydantic-core validation and compiled file parsers; every input that could be symbolic "
           "(names, letters, ids, file text) is rebuilt as a concrete str/int before any flodym line sees it, so no symbolic state reaches the code "
           "(DESIGN.md section 5)",
}

#!/bin/bash
# tools/run_all.sh [quick|thorough] [ids...] : run checks one after the other, print one line each
TIER=${1:-quick}; shift
IDS=${@:-C01 C02 C03 C04 C05 C06 C07 C08 C09 C10 C11 C12 C13 C14 C15 C16 C17 C19 C20}
cd "$(dirname "$0")/.."
[ -x .venv/bin/python ] || ./setup.sh >/dev/null
for p in $IDS; do
  s=$(date +%s); out=$(SVX_SLOW=1 ./check $p $TIER 2>&1); rc=$?; e=$(date +%s)
  echo "$p $TIER rc=$rc $((e-s))s :: $(echo "$out" | tail -1 | cut -c1-220)"
  echo "$out" | grep -E "^(UNKNOWN|INCONCLUSIVE|HARNESS-ERROR|VIOLATION|  slow)" | head -8 | cut -c1-200
done

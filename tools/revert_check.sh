#!/bin/bash
# tools/revert_check.sh : for every "fixed:" line of known_findings.txt, revert that /repo commit in a scratch
# worktree and expect the property's quick check to report the defect again (exit 1).
cd "$(dirname "$0")/.."
grep '^fixed:' known_findings.txt | while read -r _ prop commit _; do
  id=${prop#property=}
  git -C /repo diff $commit $commit^ > /tmp/revert_$commit.diff
  r=$(TAILN=1 tools/seed_run.sh /tmp/revert_$commit.diff $id quick 2>&1 | tail -1)
  echo "revert $commit ($id): $r"; rm -f /tmp/revert_$commit.diff
done

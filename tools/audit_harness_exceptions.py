#!/usr/bin/env python3
"""tools/audit_harness_exceptions.py [IDs...] : vacuity audit of the "this call must raise" obligations.

An ill-formed call that raises because of a slip in the harness (a NameError in a lambda, a missing import, a misspelt
attribute of a harness object) would pass for flodym rejecting the call.  This audit runs a sample of every check's quick
configurations concretely (float64, unstubbed flodym) under sys.settrace and lists every NameError / ImportError /
UnboundLocalError / AttributeError that is *raised in a frame of /verif/checks* (not inside flodym, numpy or pandas).
Expected output: none.  Run: PYTHONPATH=/verif:/repo .venv/bin/python tools/audit_harness_exceptions.py
"""
import importlib
import sys
import warnings

import numpy as np

sys.path.insert(0, "/verif")
from svx.world import World, AssumptionViolated  # noqa: E402

SUSPECT = (NameError, ImportError, UnboundLocalError, AttributeError)
found = {}


def tracer(frame, event, arg):
    if event == "exception":
        et, ev, _tb = arg
        fn = frame.f_code.co_filename
        if issubclass(et, SUSPECT) and "/verif/checks/" in fn:
            # only where the exception originates (the innermost frame sees it first)
            key = (fn.split("/")[-1], frame.f_lineno, et.__name__, str(ev)[:100])
            found[key] = found.get(key, 0) + 1
    return tracer


def main():
    ids = sys.argv[1:] or ["C%02d" % i for i in range(1, 21) if i != 18]
    warnings.simplefilter("ignore")
    for pid in ids:
        mod = importlib.import_module("checks.c" + pid[1:])
        cfgs = mod.configs("quick", 0)
        per_h = {}
        for c in cfgs:
            per_h.setdefault(c["h"], []).append(c)
        sample = []
        for h, lst in per_h.items():
            step = max(1, len(lst) // 60)
            sample += lst[::step]
        n = 0
        for cfg in sample:
            w = World(False, values={})
            sys.settrace(tracer)
            try:
                with np.errstate(all="ignore"):
                    mod.run(cfg, w)
            except AssumptionViolated:
                pass
            except Exception:
                pass
            finally:
                sys.settrace(None)
            n += 1
        print(f"{pid}: {n} configurations audited")
    for k, v in sorted(found.items()):
        print("SUSPECT", k, "x", v)
    print(f"{len(found)} suspect exception sites")
    return 1 if found else 0


if __name__ == "__main__":
    sys.exit(main())

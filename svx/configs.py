"""svx.configs -- shared enumerators: dimension universes, ordered subsets, length patterns."""
from __future__ import annotations

import itertools

NAMES = {"a": "Alpha", "b": "Beta", "c": "Gamma", "d": "Delta", "e": "Epsil", "t": "Time", "r": "Region", "p": "Product"}


def ordered_subsets(letters, max_size=None, min_size=0):
    out = []
    n = len(letters) if max_size is None else max_size
    for k in range(min_size, n + 1):
        for comb in itertools.combinations(letters, k):
            for perm in itertools.permutations(comb):
                out.append("".join(perm))
    return out


def subsets(letters, min_size=0):
    out = []
    for k in range(min_size, len(letters) + 1):
        for comb in itertools.combinations(letters, k):
            out.append("".join(comb))
    return out


def length_patterns(letters, choices):
    """all assignments letter -> length"""
    letters = list(letters)
    for combo in itertools.product(choices, repeat=len(letters)):
        yield dict(zip(letters, combo))


def items_of(letter, n):
    return [f"{letter}{i + 1}" for i in range(n)]


def make_dim(letter, n, items=None, dtype=None):
    from flodym import Dimension

    return Dimension(name=NAMES.get(letter, letter.upper() * 3), letter=letter, items=items if items is not None else items_of(letter, n), dtype=dtype)


def make_dimset(letters, lens, dims=None):
    from flodym import DimensionSet

    if dims is None:
        dims = {l: make_dim(l, lens[l]) for l in letters}
    return DimensionSet(dim_list=[dims[l] for l in letters])


def label_tuples(letters, lens):
    """all label index tuples over `letters` (as dict letter->index)"""
    letters = list(letters)
    for combo in itertools.product(*[range(lens[l]) for l in letters]):
        yield dict(zip(letters, combo))


def at(arr, letters, lab):
    """entry of ndarray `arr` stored in order `letters` at label dict `lab`"""
    return arr[tuple(lab[l] for l in letters)]


def lens_key(lens):
    return "".join(f"{l}{n}" for l, n in sorted(lens.items()))


def relayout(vals, which):
    """same labels, other memory layout: 0 = C-contiguous copy, 1 = column-major, 2 = a strided view of a wider buffer"""
    import numpy as np

    if getattr(vals, "ndim", 0) < 1 or which == 0:
        return vals
    if which == 1:
        if vals.ndim < 2:
            return vals
        return np.asfortranarray(vals).view(type(vals))
    wide = np.empty(vals.shape[:-1] + (2 * vals.shape[-1],), dtype=vals.dtype).view(type(vals))
    wide[..., ::2] = vals
    wide[..., 1::2] = vals[..., ::-1] if vals.shape[-1] else vals
    return wide[..., ::2]

"""svx.runner -- runs one property's harness over its configurations, discharges the
obligations with z3, replays counterexamples on the unstubbed float64 code, matches known
findings, writes evidence, sets the exit code.

exit 0  held on everything explored (KNOWN-FINDING lines possible)
exit 1  reproduced violation that is not a listed known finding
exit 2  inconclusive (bound exceeded, unknown, Concretised, ModelGap)
exit 3  harness error (vacuity, non-reproducing counterexample, solver disagreement)
"""
from __future__ import annotations

import fnmatch
import hashlib
import importlib
import json
import multiprocessing as mp
import os
import sys
import time
import traceback
from fractions import Fraction

import numpy as np
import z3

from . import shims, sym
from .sym import SymBool, EngineSignal
from .world import World, EqBool, AssumptionViolated

VERIF = os.path.dirname(os.path.dirname(os.path.abspath(__file__)))
REPO = os.environ.get("FLODYM_SRC", "/repo")


# ----------------------------------------------------------------------------- models
def _val(m, const):
    v = m.eval(const, model_completion=True)
    if z3.is_bool(v):
        return bool(z3.is_true(v))
    if z3.is_rational_value(v):
        return Fraction(v.numerator_as_long(), v.denominator_as_long())
    if z3.is_algebraic_value(v):
        a = v.approx(30)
        return Fraction(a.numerator_as_long(), a.denominator_as_long())
    if z3.is_int_value(v):
        return Fraction(v.as_long())
    return None


def _model_inputs(m, w):
    out = {}
    for name, const in w.inputs.items():
        v = _val(m, const)
        if v is None:
            continue
        out[name] = v if isinstance(v, bool) else str(v)
    return out


def _parse_inputs(d):
    return {k: (v if isinstance(v, bool) else Fraction(v)) for k, v in d.items()}


# ----------------------------------------------------------------------------- discharge
class PathResult:
    def __init__(self):
        self.n_obs = 0
        self.trivial = 0
        self.by_simplify = 0
        self.by_solver = 0
        self.by_som = 0
        self.cc_agree = 0
        self.cc_unknown = 0
        self.cc_unavailable = 0
        self.cc_disagree = []
        self.nl = 0
        self.queries = 0
        self.t_solver = 0.0
        self.max_q = 0.0  # slowest single obligation query (s)
        self.retried = 0  # queries repeated with a longer timeout after an unknown
        self.failed = []  # (ob key, info, inputs)
        self.unknown = []  # ob keys
        self.sample = None


def _uf_apps(exprs):
    """all applications of uninterpreted functions (arity > 0) in the expressions, outermost first"""
    seen = {}
    order = []

    def visit(e, depth):
        h = e.get_id()
        if h in seen:
            return
        seen[h] = True
        if z3.is_app(e):
            if e.num_args() > 0 and e.decl().kind() == z3.Z3_OP_UNINTERPRETED:
                order.append((depth, e))
            for ch in e.children():
                visit(ch, depth + 1)

    for e in exprs:
        visit(e, 0)
    order.sort(key=lambda x: x[0])
    return [e for _d, e in order]


def abstract_ufs(exprs):
    """replace every UF application by a fresh real constant (drops congruence: unsat stays sound)"""
    if not _uf_apps(exprs):
        return None
    # normalise first: syntactically different but simplifier-equal argument terms must map to the
    # same fresh constant
    exprs = [z3.simplify(e, som=True, som_blowup=100000) for e in exprs]
    apps = _uf_apps(exprs)
    out = list(exprs)
    for i, a in enumerate(apps):
        if a.sort() != z3.RealSort():
            return None
        fresh = z3.Real(f"ufabs!{i}")
        out = [z3.substitute(e, (a, fresh)) for e in out]
    return out


_CC = dict(n=0)


def cross_check(formulas, every, pr):
    """re-decide every k-th z3-unsat query with cvc5 (second solver, DESIGN.md 2.6)"""
    if not every:
        return
    _CC["n"] += 1
    if _CC["n"] % every:
        return
    try:
        import cvc5
    except Exception:
        pr.cc_unavailable += 1
        return
    zs = z3.Solver()
    zs.add(*formulas)
    txt = zs.to_smt2()
    try:
        slv = cvc5.Solver()
        slv.setOption("tlimit-per", "8000")
        slv.setLogic("ALL")
        ip = cvc5.InputParser(slv)
        ip.setStringInput(cvc5.InputLanguage.SMT_LIB_2_6, txt, "q")
        sm = ip.getSymbolManager()
        res = None
        while True:
            cmd = ip.nextCommand()
            if cmd.isNull():
                break
            out = cmd.invoke(slv, sm).strip()
            if out in ("sat", "unsat", "unknown"):
                res = out
    except Exception as e:
        pr.cc_unknown += 1
        return
    if res == "unsat":
        pr.cc_agree += 1
    elif res == "sat":
        pr.cc_disagree.append(txt[:400])
    else:
        pr.cc_unknown += 1


def _fresh_solver(c, timeout_ms, lemmas=()):
    s = z3.Solver()
    s.set("timeout", timeout_ms)
    for a in c.assumptions:
        s.add(a)
    for p in c.path_condition():
        s.add(p)
    for l in lemmas:
        s.add(l)
    return s


def _robust_model(c, w, ob, t, timeout_ms=3000):
    """try for a counterexample with a visible margin and moderate inputs (replays robustly)"""
    cond = ob.cond
    s = _fresh_solver(c, timeout_ms)
    s.add(z3.Not(t))
    if isinstance(cond, EqBool):
        d = cond.lhs - cond.rhs
        s.add(z3.Or(d >= z3.RealVal("1/16"), d <= z3.RealVal("-1/16")))
    for name, const in w.inputs.items():
        if z3.is_real(const):
            s.add(const >= -64, const <= 64)
    if s.check() == z3.sat:
        return s.model()
    return None


def _ratfun(e, memo, budget):
    """e as (numerator, denominator) without division nodes; None if the budget is exceeded.
    Atoms (constants, variables, UF applications, ite ...) are kept as they are."""
    k = e.get_id()
    if k in memo:
        return memo[k]
    budget[0] -= 1
    if budget[0] < 0:
        return None
    one = z3.RealVal(1)
    r = None
    if z3.is_app(e) and e.sort() == z3.RealSort():
        kind = e.decl().kind()
        ch = e.children()
        if kind in (z3.Z3_OP_ADD, z3.Z3_OP_SUB) and ch:
            parts = [_ratfun(x, memo, budget) for x in ch]
            if any(p is None for p in parts):
                return None
            n, d = parts[0]
            for (n2, d2) in parts[1:]:
                if kind == z3.Z3_OP_SUB:
                    n2 = -n2
                if d.eq(d2):
                    n = n + n2
                else:
                    n, d = n * d2 + n2 * d, d * d2
            r = (n, d)
        elif kind == z3.Z3_OP_UMINUS:
            p = _ratfun(ch[0], memo, budget)
            if p is None:
                return None
            r = (-p[0], p[1])
        elif kind == z3.Z3_OP_MUL:
            n, d = one, one
            for x in ch:
                p = _ratfun(x, memo, budget)
                if p is None:
                    return None
                n, d = n * p[0], (d if p[1].eq(one) else (p[1] if d.eq(one) else d * p[1]))
            r = (n, d)
        elif kind == z3.Z3_OP_DIV:
            a, b = _ratfun(ch[0], memo, budget), _ratfun(ch[1], memo, budget)
            if a is None or b is None:
                return None
            r = (a[0] * b[1], a[1] * b[0])
    if r is None:
        r = (e, one)
    memo[k] = r
    return r


def ratfun_identity(lhs, rhs):
    """lhs == rhs as an identity of rational functions over the atoms (valid wherever the denominators are
    non-zero, which every path assumes for the divisions flodym performed): numerator of lhs - rhs is the zero polynomial"""
    try:
        p = _ratfun(lhs - rhs, {}, [4000])
        if p is None:
            return False
        n = z3.simplify(p[0], som=True, som_blowup=100000)
        return z3.is_rational_value(n) and n.numerator_as_long() == 0
    except Exception:
        return False


def prove_now(c, w, cond, timeout_ms=20000):
    """decide one obligation immediately under the current path (fresh solver)."""
    t = z3.simplify(cond.t)
    if z3.is_true(t):
        return True, None
    if isinstance(cond, EqBool):
        d = z3.simplify(cond.lhs - cond.rhs, som=True, som_blowup=100000)
        if (z3.is_rational_value(d) and d.numerator_as_long() == 0) or ratfun_identity(cond.lhs, cond.rhs):
            return True, None
    s = _fresh_solver(c, timeout_ms)
    s.add(z3.Not(t))
    t0 = time.time()
    r = s.check()
    c.t_solver += time.time() - t0
    c.nq += 1
    if r == z3.unsat:
        return True, None
    if r == z3.sat:
        return False, None
    return None, None


def discharge(c, w, timeout_ms, cc_every=0):
    pr = PathResult()
    lin = []
    nl = []
    for ob in w.obs:
        pr.n_obs += 1
        cond = ob.cond
        if isinstance(cond, (bool, np.bool_)):
            if cond:
                pr.trivial += 1
            else:
                r = c.solver.check()
                pr.queries += 1
                if r == z3.sat:
                    pr.failed.append((ob.key, ob.info, _model_inputs(c.solver.model(), w)))
                else:
                    pr.unknown.append(ob.key)
            continue
        if not isinstance(cond, SymBool):
            raise RuntimeError(f"obligation {ob.key} is neither bool nor SymBool: {type(cond)}")
        t = z3.simplify(cond.t)
        if z3.is_true(t):
            pr.by_simplify += 1
            continue
        if cond.nl or ob.chain:
            nl.append((ob, t))
        else:
            lin.append((ob, t))
    # ---- linear obligations: one batched query on the path's incremental solver
    if lin:
        c.solver.push()
        c.solver.add(z3.Or(*[z3.Not(t) for _ob, t in lin]))
        t0 = time.time()
        r = c.solver.check()
        pr.t_solver += time.time() - t0
        pr.max_q = max(pr.max_q, time.time() - t0)
        pr.queries += 1
        c.solver.pop()
        if r == z3.unsat:
            pr.by_solver += len(lin)
            if pr.sample is None:
                pr.sample = (lin[0][0].key, lin[0][1].sexpr()[:600])
            cross_check(list(c.assumptions) + c.path_condition() + [z3.Or(*[z3.Not(t) for _ob, t in lin])], cc_every, pr)
        else:
            for ob, t in lin:
                if len(pr.failed) >= 6:
                    break  # enough counterexamples from this path; the rest is not attempted
                c.solver.push()
                c.solver.add(z3.Not(t))
                t0 = time.time()
                r1 = c.solver.check()
                pr.t_solver += time.time() - t0
                pr.queries += 1
                if r1 == z3.unsat:
                    pr.by_solver += 1
                elif r1 == z3.sat:
                    m = c.solver.model()
                    c.solver.pop()
                    m2 = _robust_model(c, w, ob, t)
                    pr.failed.append((ob.key, ob.info, _model_inputs(m2 or m, w)))
                    continue
                else:
                    # second try: fresh non-incremental solver for the linear real fragment
                    s2 = z3.SolverFor("QF_LRA")
                    s2.set("timeout", timeout_ms)
                    for a_ in c.assumptions:
                        s2.add(a_)
                    for p_ in c.path_condition():
                        s2.add(p_)
                    s2.add(z3.Not(t))
                    t0 = time.time()
                    r2 = s2.check()
                    if r2 == z3.unknown and pr.retried < 3:
                        pr.retried += 1
                        s2.set("timeout", 4 * timeout_ms)
                        r2 = s2.check()
                    pr.t_solver += time.time() - t0
                    pr.max_q = max(pr.max_q, time.time() - t0)
                    pr.queries += 1
                    if r2 == z3.unsat:
                        pr.by_solver += 1
                    elif r2 == z3.sat:
                        m = s2.model()
                        c.solver.pop()
                        pr.failed.append((ob.key, ob.info, _model_inputs(m, w)))
                        continue
                    else:
                        pr.unknown.append(ob.key)
                c.solver.pop()
    # ---- nonlinear / chained obligations: a fresh solver each (nlsat), lemma chaining
    lemmas = []
    for ob, t in nl:
        pr.nl += 1
        if len(pr.unknown) >= 4 or len(pr.failed) >= 6:
            pr.unknown.append(ob.key + " (not attempted: budget of this path used up)")
            continue
        if isinstance(ob.cond, EqBool) and not os.environ.get("SVX_NO_SOM"):
            # polynomial identities: z3's sum-of-monomials normal form decides them outright
            d = z3.simplify(ob.cond.lhs - ob.cond.rhs, som=True, som_blowup=100000)
            if (z3.is_rational_value(d) and d.numerator_as_long() == 0) or ratfun_identity(ob.cond.lhs, ob.cond.rhs):
                pr.by_som += 1
                if ob.chain:
                    lemmas.append(t)
                continue
        t0 = time.time()
        r = z3.unknown
        base = list(c.assumptions) + c.path_condition() + (list(lemmas) if ob.chain else []) + [z3.Not(t)]
        ab = abstract_ufs(base)
        if ab is not None:
            # UF applications as free reals first (nlsat has no UF support); only unsat is kept
            s = z3.Solver()
            s.set("timeout", timeout_ms)
            s.add(*ab)
            r = s.check()
            pr.queries += 1
            if r != z3.unsat:
                r = z3.unknown
        if r == z3.unknown:
            s = _fresh_solver(c, timeout_ms, lemmas if ob.chain else ())
            s.add(z3.Not(t))
            r = s.check()
            pr.queries += 1
            if r == z3.unknown and pr.retried < 3:
                # a machine under load: one more attempt with four times the budget before calling it inconclusive
                pr.retried += 1
                s = _fresh_solver(c, 4 * timeout_ms, lemmas if ob.chain else ())
                s.add(z3.Not(t))
                r = s.check()
                pr.queries += 1
        pr.t_solver += time.time() - t0
        pr.max_q = max(pr.max_q, time.time() - t0)
        if r == z3.unsat:
            pr.by_solver += 1
            cross_check(base, cc_every, pr)
            if ob.chain:
                lemmas.append(t)
            if pr.sample is None:
                pr.sample = (ob.key, t.sexpr()[:600])
        elif r == z3.sat:
            m = s.model()
            m2 = _robust_model(c, w, ob, t)
            pr.failed.append((ob.key, ob.info, _model_inputs(m2 or m, w)))
        else:
            pr.unknown.append(ob.key)
    return pr


# ----------------------------------------------------------------------------- replay
def concrete_run(mod, cfg, inputs, int_arrays=False):
    """run the harness on the unstubbed float64 code; returns (failed obligation keys, notes)"""
    w = World(False, values=_parse_inputs(inputs) if inputs else {}, int_arrays=int_arrays)
    failed = []
    try:
        with np.errstate(all="ignore"):
            mod.run(cfg, w)
    except AssumptionViolated as e:
        return None, f"assumption violated in replay: {e}"
    except Exception as e:
        failed.append(("no_unexpected_exception", f"{type(e).__name__}: {e}"))
        return failed, None
    for ob in w.obs:
        cond = ob.cond
        if isinstance(cond, SymBool):
            raise RuntimeError("symbolic obligation in concrete mode")
        if not cond:
            failed.append((ob.key, ob.info))
    return failed, None


# ----------------------------------------------------------------------------- worker
_PROFILED = {}


_KNOWN = None
_STOP = None  # multiprocessing.Value: number of reproduced violations found so far (all workers)


def _init_pool(v):
    global _STOP
    _STOP = v


def process_config(args):
    modname, cfg, tier, opts = args
    t_start = time.time()
    if _STOP is not None and _STOP.value >= int(os.environ.get("SVX_STOP_AFTER", opts.get("stop_after", 12))):
        return dict(key=cfg["key"], h=cfg["h"], skipped=True)
    mod = importlib.import_module(modname)
    res = dict(
        key=cfg["key"], h=cfg["h"], paths=0, infeasible=0, forks=0, max_depth=0, obligations=0, trivial=0,
        by_simplify=0, by_solver=0, nl=0, queries=0, t_solver=0.0, max_q=0.0, retried=0, nontrivial_paths=0, solver_paths=0, structural=0, by_som=0, cc_agree=0, cc_unknown=0, cc_disagree=[], violations=[],
        unknown=[], error=None, inconclusive=None, sample=None, funcs=[], stubs=[], shadow=None,
    )
    timeout_ms = opts.get("timeout_ms", 10000)
    prof = None
    funcs = set()
    pk = cfg.get("pk", cfg["h"] + ":" + str(cfg.get("op", "")))
    if _PROFILED.get(pk, 0) < 4:
        _PROFILED[pk] = _PROFILED.get(pk, 0) + 1

        def prof(frame, event, arg):
            if event == "call":
                fn = frame.f_code.co_filename
                if "/flodym/" in fn:
                    funcs.add(os.path.basename(fn)[:-3] + "." + frame.f_code.co_qualname)

    plan = mod.shim_plan(cfg) if hasattr(mod, "shim_plan") else None
    try:
        with shims.installed(plan):
            first = True

            def fn(c):
                if hasattr(mod, "ctx_setup"):
                    mod.ctx_setup(cfg, c)
                w = World(True, ctx=c)
                c.world = w
                try:
                    mod.run(cfg, w)
                except AssumptionViolated:
                    raise
                except Exception as e:  # an exception the harness did not expect
                    if os.environ.get("SVX_DEBUG"):
                        traceback.print_exc()
                    w.ob("no_unexpected_exception", False, info=f"{type(e).__name__}: {str(e)[:300]}")
                return w

            if prof is not None:
                sys.setprofile(prof)
            try:
                gen = sym.explore(fn, max_paths=opts.get("max_paths", 3000), max_depth=opts.get("max_depth", 400))
                for c, out in gen:
                    if prof is not None and first:
                        sys.setprofile(None)
                        first = False
                    status, w = out
                    if status == "exc":
                        raise w
                    if res["paths"] and _STOP is not None and _STOP.value >= int(os.environ.get("SVX_STOP_AFTER", opts.get("stop_after", 12))):
                        # enough reproduced violations elsewhere: the remaining paths of this configuration are not explored
                        res["stopped_early"] = True
                        gen.close()
                        break
                    res["paths"] += 1
                    res["forks"] += c.forks
                    res["max_depth"] = max(res["max_depth"], len(c.trace))
                    # reachability twin: assumptions + path must be satisfiable
                    r = c._fresh_check(z3.BoolVal(True), retry=False) if c.nl_mode else c.solver.check()
                    if r == z3.unknown:
                        r = c._fresh_check(z3.BoolVal(True), retry=False)
                    if r == z3.unknown:
                        # vacuity guard only: satisfiable with UF applications as free reals (relaxation)
                        ab = abstract_ufs(list(c.assumptions) + c.path_condition())
                        if ab is not None:
                            s_ = z3.Solver()
                            s_.set("timeout", 20000)
                            s_.add(*ab)
                            if s_.check() == z3.sat:
                                r = z3.sat
                                res["feasible_modulo_uf"] = res.get("feasible_modulo_uf", 0) + 1
                    if r == z3.unknown:
                        # last resort before the path counts as inconclusive: the full query once more with four times the budget
                        r = c._fresh_check(z3.BoolVal(True), retry=False, factor=4)
                    if r == z3.unsat:
                        res["infeasible"] += 1
                        continue
                    if r == z3.unknown:
                        res["unknown"].append("path-feasibility")
                        continue
                    pr = discharge(c, w, timeout_ms, opts.get('cc_every', 0))
                    res["obligations"] += pr.n_obs
                    res["trivial"] += pr.trivial
                    res["by_simplify"] += pr.by_simplify + pr.by_som
                    res["by_som"] += pr.by_som
                    res["by_solver"] += pr.by_solver
                    res["nl"] += pr.nl
                    res["queries"] += pr.queries + c.nq
                    res["t_solver"] += pr.t_solver + c.t_solver
                    res["max_q"] = max(res["max_q"], pr.max_q)
                    res["retried"] += pr.retried
                    res["cc_agree"] += pr.cc_agree
                    res["cc_unknown"] += pr.cc_unknown + pr.cc_unavailable
                    res["cc_disagree"].extend(pr.cc_disagree)
                    res["structural"] += w.n_struct
                    res["by_solver"] += w.n_lemmas
                    res["trivial"] -= w.n_lemmas
                    if pr.by_solver or pr.failed or c.nq:
                        res["solver_paths"] += 1
                    if pr.by_solver or pr.failed or pr.by_simplify or pr.by_som or w.n_struct or c.trace:
                        res["nontrivial_paths"] += 1
                    if pr.sample and res["sample"] is None:
                        res["sample"] = dict(config=cfg["key"], obligation=pr.sample[0], negated_goal_unsat=pr.sample[1],
                                             path_condition=[p.sexpr()[:200] for p in c.path_condition()[:6]])
                    res["unknown"].extend(pr.unknown)
                    for key, info, inputs in pr.failed:
                        res["violations"].append(dict(ob=key, info=info, inputs=inputs))
                    if len(res["violations"]) >= 3:
                        gen.close()
                        break
            finally:
                sys.setprofile(None)
    except EngineSignal as e:
        res["inconclusive"] = f"{type(e).__name__}: {e}"
        if os.environ.get("SVX_DEBUG"):
            traceback.print_exc()
    except Exception as e:
        res["error"] = "".join(traceback.format_exception(type(e), e, e.__traceback__))[-2000:]
    res["funcs"] = sorted(funcs)
    res["stubs"] = sorted(shims.USED)
    if res["paths"] - res["infeasible"] <= 0 and not res["inconclusive"] and not res["error"]:
        res["error"] = "vacuous: no feasible path"
    if res["obligations"] == 0 and not res["inconclusive"] and not res["error"]:
        res["error"] = "vacuous: no obligations produced"
    # ---- replay every counterexample on the unstubbed float64 code path
    for v in res["violations"]:
        try:
            failed, note = concrete_run(mod, cfg, v["inputs"])
        except Exception as e:
            failed, note = None, "replay crashed: " + "".join(traceback.format_exception_only(type(e), e))
        if not failed:
            # value-independent defects (a stale table, a wrong axis) also show on the harness's generic
            # default inputs; solver models over uninterpreted kernels need not survive the real kernels
            try:
                failed2, note2 = concrete_run(mod, cfg, None)
            except Exception as e:
                failed2, note2 = None, "default replay crashed: " + repr(e)
            if failed2:
                failed, note = failed2, "reproduced on the harness default inputs (solver model did not survive the real kernels)"
                v["inputs"] = {}
        v["replay_failed"] = failed
        v["replay_note"] = note
        v["reproduced"] = bool(failed)
    # ---- shadow run: the same harness on float64 with default inputs must hold numerically
    sa = getattr(mod, "SHADOW_ALWAYS", None)  # configurations whose float path may part from the object path (stated per check)
    # (also when the symbolic run ended inconclusive -- a model gap must not switch the differential run off)
    if (opts.get("shadow") or (sa and sa(cfg)) or res["inconclusive"]) and not res["violations"] and not res["error"]:
        try:
            failed, note = concrete_run(mod, cfg, None)
            res["shadow"] = dict(failed=failed, note=note)
        except Exception as e:
            res["shadow"] = dict(failed=None, note="shadow crashed: " + repr(e))
    # ---- dtype shadow (opt-in per check, DTYPE_SHADOW): the same harness on integer-dtype arrays
    ds = getattr(mod, "DTYPE_SHADOW", None)
    want = ds(cfg) if ds else False  # True: on the shadow sample; "always": on every configuration of that kind
    if want and (opts.get("shadow") or want == "always") and not res["violations"] and not res["error"] and not res["inconclusive"] and not (res["shadow"] or {}).get("failed"):
        try:
            failed, note = concrete_run(mod, cfg, None, int_arrays=True)
        except Exception as e:
            failed, note = None, "dtype shadow crashed: " + repr(e)
        res["dtype_shadow"] = dict(failed=failed, note=note)
    res["wall"] = time.time() - t_start
    res["cfg"] = cfg
    if _STOP is not None:
        global _KNOWN
        if _KNOWN is None:
            _KNOWN = load_known()
        prop = modname.split(".")[-1].upper()
        n = sum(1 for v in res["violations"] if v.get("reproduced") and match_known(_KNOWN, prop, cfg["h"], cfg["key"], v["ob"]) is None)
        if n:
            with _STOP.get_lock():
                _STOP.value += n
    return res


# ----------------------------------------------------------------------------- known findings
def load_known():
    path = os.path.join(VERIF, "known_findings.txt")
    out = []
    if not os.path.exists(path):
        return out
    for line in open(path):
        line = line.strip()
        if not line.startswith("known:"):
            continue
        head, _, text = line[len("known:"):].partition("::")
        d = {}
        for tok in head.split():
            k, _, v = tok.partition("=")
            d[k] = v
        d["text"] = text.strip()
        out.append(d)
    return out


def match_known(known, prop, h, key, ob):
    for k in known:
        if k.get("property") != prop:
            continue
        if not fnmatch.fnmatchcase(h, k.get("harness", "*")):
            continue
        if not fnmatch.fnmatchcase(key, k.get("config", "*")):
            continue
        if not fnmatch.fnmatchcase(ob, k.get("obligation", "*")):
            continue
        return k
    return None


# ----------------------------------------------------------------------------- main
def main(argv=None):
    argv = list(sys.argv[1:] if argv is None else argv)
    if not argv:
        print("usage: check <ID> [quick|thorough] [--replay file] [--only harness] [--jobs N] [--limit N]")
        return 3
    prop = argv.pop(0)
    tier = os.environ.get("VERIF_TIER", "quick")
    replay = None
    only = None
    jobs = int(os.environ.get("VERIF_JOBS", "16"))
    limit = None
    verbose = False
    while argv:
        a = argv.pop(0)
        if a in ("quick", "thorough"):
            tier = a
        elif a == "--replay":
            replay = argv.pop(0)
        elif a == "--only":
            only = argv.pop(0)
        elif a == "--jobs":
            jobs = int(argv.pop(0))
        elif a == "--limit":
            limit = int(argv.pop(0))
        elif a == "-v":
            verbose = True
    seed = int(os.environ.get("VERIF_SEED", "0"))
    sys.path.insert(0, VERIF)
    if REPO not in sys.path:
        sys.path.insert(0, REPO)
    modname = f"checks.{prop.lower()}"
    mod = importlib.import_module(modname)

    if replay:
        return do_replay(mod, prop, replay)

    import logging

    logging.getLogger().setLevel(logging.ERROR)  # flodym's warnings are harness-captured where they matter (C02)
    t0 = time.time()
    cfgs = mod.configs(tier, seed)
    if only:
        cfgs = [c for c in cfgs if fnmatch.fnmatchcase(c["h"], only) or fnmatch.fnmatchcase(c["key"], only)]
    import random

    random.Random(seed).shuffle(cfgs)
    if limit:
        cfgs = cfgs[:limit]
    opts = dict(getattr(mod, "OPTS", {}).get(tier, {}))
    opts.setdefault("timeout_ms", 10000 if tier == "quick" else 120000)
    opts.setdefault("cc_every", 150 if tier == "quick" else 40)
    shadow_every = opts.get("shadow_every", 25)
    work = []
    for i, c in enumerate(cfgs):
        o = dict(opts)
        o["shadow"] = (i % shadow_every) == 0
        work.append((modname, c, tier, o))
    results = []
    if jobs <= 1 or len(work) <= 1:
        for wk in work:
            results.append(process_config(wk))
    else:
        ctxm = mp.get_context("fork")
        chunk = max(1, min(50, len(work) // (jobs * 8) or 1))
        stop = ctxm.Value("i", 0)
        with ctxm.Pool(jobs, initializer=_init_pool, initargs=(stop,)) as pool:
            for r in pool.imap_unordered(process_config, work, chunksize=chunk):
                results.append(r)
    wall = time.time() - t0
    return report(mod, prop, tier, seed, results, wall, verbose, opts)


def report(mod, prop, tier, seed, results, wall, verbose=False, opts=None):
    opts = opts or {}
    known = load_known()
    skipped = [r for r in results if r.get("skipped")]
    results = [r for r in results if not r.get("skipped")]
    agg = dict(configs=len(results), paths=0, infeasible=0, forks=0, max_depth=0, obligations=0, trivial=0, by_simplify=0,
               by_solver=0, nl=0, queries=0, t_solver=0.0, max_q=0.0, retried=0, nontrivial=0, structural=0, solver_paths=0, by_som=0, cc_agree=0, cc_unknown=0)
    funcs, stubs = set(), set()
    samples = []
    inconclusive, errors, unknowns = [], [], []
    new_violations, known_hits, nonrepro = [], {}, []
    shadow_runs = shadow_bad = 0
    dtype_shadow_runs = 0
    per_h = {}
    for r in results:
        for k in ("paths", "infeasible", "forks", "obligations", "trivial", "by_simplify", "by_solver", "nl", "queries", "t_solver", "structural", "solver_paths", "by_som", "cc_agree", "cc_unknown"):
            agg[k] += r[k]
        agg["max_depth"] = max(agg["max_depth"], r["max_depth"])
        agg["max_q"] = max(agg["max_q"], r.get("max_q", 0.0))
        agg["retried"] += r.get("retried", 0)
        agg["nontrivial"] += r["nontrivial_paths"]
        ph = per_h.setdefault(r["h"], dict(configs=0, paths=0, obligations=0))
        ph["configs"] += 1
        ph["paths"] += r["paths"]
        ph["obligations"] += r["obligations"]
        funcs.update(r["funcs"])
        stubs.update(r["stubs"])
        if r["sample"] and len(samples) < 6 and not any(s["config"].split("/")[0] == r["sample"]["config"].split("/")[0] for s in samples):
            samples.append(r["sample"])
        for txt in r.get("cc_disagree", []):
            errors.append((r["key"], "second solver disagrees (z3 unsat, cvc5 sat): " + txt))
        if r["inconclusive"]:
            inconclusive.append((r["key"], r["inconclusive"]))
        if r["error"]:
            errors.append((r["key"], r["error"]))
        for u in r["unknown"]:
            unknowns.append((r["key"], u))
        if r["shadow"] is not None:
            shadow_runs += 1
            if r["shadow"]["failed"]:
                # the unstubbed float64 code violates an obligation on the harness's default inputs although the
                # symbolic run proved it: a gap of the model, and at the same time a reproduced violation of the
                # real code -- reported as such (found by the differential shadow run, not by the solver)
                shadow_bad += 1
                k0, i0 = r["shadow"]["failed"][0]
                r["violations"].append(dict(ob=k0, info=f"(shadow run on default inputs; symbolic run did not see it) {i0 or ''}", inputs={},
                                            replay_failed=r["shadow"]["failed"], reproduced=True))
            elif r["shadow"]["note"]:
                shadow_bad += 1
                errors.append((r["key"], f"shadow run could not be evaluated: {r['shadow']}"))
        if r.get("dtype_shadow") is not None:
            dtype_shadow_runs += 1
            if r["dtype_shadow"]["failed"]:
                k0, i0 = r["dtype_shadow"]["failed"][0]
                r["violations"].append(dict(ob=k0, info=f"(dtype shadow: integer-dtype arrays, default whole-number inputs; outside the exact-real claim) {i0 or ''}", inputs={"__int_arrays__": True},
                                            replay_failed=r["dtype_shadow"]["failed"], reproduced=True))
        for v in r["violations"]:
            rec = dict(property=prop, harness=r["h"], config=r["key"], obligation=v["ob"], info=v["info"], inputs=v["inputs"],
                       replay_failed=v.get("replay_failed"))
            if not v["reproduced"]:
                nonrepro.append((rec, v.get("replay_note")))
                continue
            k = match_known(known, prop, r["h"], r["key"], v["ob"])
            if k is not None:
                known_hits.setdefault(k["text"], []).append(rec)
            else:
                new_violations.append(rec)
    if not samples:
        for r in results[:3]:
            samples.append(dict(config=r["key"], obligations=r["obligations"], paths=r["paths"]))
    # anchors that must have been entered
    missing_funcs = [f for f in getattr(mod, "FUNCTIONS", []) if not any(x.endswith(f) for x in funcs)]
    if missing_funcs and results:
        errors.append(("anchors", f"anchored functions never entered: {missing_funcs}"))

    os.makedirs(os.path.join(VERIF, "replays", prop), exist_ok=True)
    code = 0
    lines = []
    seen = set()
    for rec in new_violations:
        sig = (rec["harness"], rec["obligation"].split("[")[0])
        cfg = next(c for c in [rec["config"]])
        blob = json.dumps(rec, sort_keys=True, default=str)
        path = os.path.join(VERIF, "replays", prop, hashlib.sha1(blob.encode()).hexdigest()[:12] + ".json")
        rec_full = dict(rec)
        rec_full["cfg"] = next(r for r in results if r["key"] == rec["config"]).get("cfg")
        with open(path, "w") as f:
            json.dump(rec_full, f, indent=1, default=str)
        if sig in seen and len(lines) >= 10:
            continue
        seen.add(sig)
        lines.append(f"VIOLATION property={prop} replay={path}")
        if verbose or len(lines) <= 5:
            print(f"  [{rec['harness']}] {rec['config']} :: {rec['obligation']} {rec['info'] or ''} replayed: {rec['replay_failed'][:2] if rec['replay_failed'] else None}")
        code = 1
    for text, recs in known_hits.items():
        print(f"KNOWN-FINDING: property={prop} {text} ({len(recs)} configurations)")
    for ln in lines:
        print(ln)
    if nonrepro:
        for rec, note in nonrepro[:5]:
            print(f"HARNESS-ERROR non-reproducing counterexample: {rec['config']} :: {rec['obligation']} {rec['info'] or ''} note={note}")
        if code == 0:
            code = 3
    if errors:
        for k, e in errors[:5]:
            print(f"HARNESS-ERROR {k}: {e}")
        if code == 0:
            code = 3
    if (inconclusive or unknowns) and code == 0:
        code = 2
    for k, e in inconclusive[:5]:
        print(f"INCONCLUSIVE {k}: {e}")
    for k, e in unknowns[:5]:
        print(f"UNKNOWN {k}: {e}")

    ev = dict(
        property_id=prop, tier=tier, seed=seed, level="other", wall_s=round(wall, 2),
        violations=len(new_violations),
        assumptions=list(getattr(mod, "ASSUMPTIONS", [])) + [
            "arithmetic over exact reals (no IEEE rounding/overflow/inf; NaN only where a NaN flag is stated)",
            "inputs that make flodym divide by a zero are outside the claim (divisor != 0 assumed at each symbolic division)",
            "numpy object-dtype loops and einsum compute the same expression as the float64 loops up to rounding (shadow runs, replay)",
        ],
        coverage=dict(
            explanation="bounded symbolic execution of the real flodym source (symbolic reals in object arrays, per-path "
                        "re-execution) with z3 deciding each obligation under the path condition; configurations enumerated inside the stated bounds",
            evaluations=agg["obligations"],
            distinct_nontrivial=agg["nontrivial"],
            rule="one evaluation = one obligation decided on one (configuration, path); non-trivial = distinct (configuration, path) "
                 "pairs with at least one obligation relating symbolic terms (closed by structural identity of the two z3 terms, by z3's "
                 "simplifier or by a solver query) or at least one solver-decided branch on the path; paths whose obligations all needed only "
                 "Python-level checks and that took no symbolic decision are not counted; solver_decided_paths counts the pairs that needed at "
                 "least one solver query (obligation or branch feasibility)",
            solver_decided_paths=agg["solver_paths"],
            obligations=agg["obligations"],
            discharged=agg["trivial"] + agg["by_simplify"] + agg["by_solver"],
            discharged_by=dict(python_level_check=agg["trivial"] - agg["structural"], identical_z3_term=agg["structural"],
                               z3_simplifier=agg["by_simplify"] - agg["by_som"], z3_sum_of_monomials_normal_form=agg["by_som"], z3_solver_unsat=agg["by_solver"]),
            nonlinear_queries=agg["nl"],
            sat_replayed=sum(len(v) for v in known_hits.values()) + len(new_violations),
            non_reproducing=len(nonrepro),
            unknown=len(unknowns),
            configurations=agg["configs"], paths=agg["paths"], infeasible_paths=agg["infeasible"], forks=agg["forks"],
            max_path_depth=agg["max_depth"],
            per_harness=per_h,
            bounds=getattr(mod, "BOUNDS", {}).get(tier, getattr(mod, "BOUNDS", {})),
            outside_claim=getattr(mod, "OUTSIDE", []),
            stubs=sorted(stubs),
            functions_executed=sorted(funcs),
            solver=dict(name="z3", version=z3.get_version_string(), seconds_in_check=round(agg["t_solver"], 2), queries=agg["queries"],
                        per_query_timeout_s=opts.get("timeout_ms", 0) / 1000, slowest_obligation_query_s=round(agg["max_q"], 2),
                        queries_repeated_with_4x_timeout=agg["retried"]),
            shadow_runs=shadow_runs, shadow_disagreements=shadow_bad, dtype_shadow_runs=dtype_shadow_runs,
            second_solver=dict(name="cvc5 (python wheel)", queries_rechecked=agg["cc_agree"] + agg["cc_unknown"], agree_unsat=agg["cc_agree"], cvc5_unknown_or_timeout=agg["cc_unknown"],
                               rule="every k-th query that z3 answered unsat is exported with Solver.to_smt2() and re-decided; a cvc5 'sat' is a harness error"),
            samples=samples,
            known_findings_hit=sorted(known_hits.keys()),
            configurations_skipped_after_violations=len(skipped),
            exhaustive=False,
            trusted_base=["CPython operator dispatch", "numpy object loops / einsum on dtype=object", "pandas handling of object columns", "z3 5.1.0"],
            checker_cmd=f"./check {prop} {tier}",
            exit_code=code,
        ),
    )
    # evidence is only ever written for /repo itself; runs against a scratch copy (FLODYM_SRC) go elsewhere
    evdir = os.path.join(VERIF, "evidence") if REPO == "/repo" else os.path.join(VERIF, "evidence", ".scratch")
    os.makedirs(evdir, exist_ok=True)
    with open(os.path.join(evdir, f"{prop}.json"), "w") as f:
        json.dump(ev, f, indent=1, default=str)
    if os.environ.get("SVX_SLOW"):
        for r in sorted(results, key=lambda r: -r["wall"])[:8]:
            print(f"  slow: {r['wall']:.1f}s {r['key']} paths={r['paths']} obligations={r['obligations']}")
    if skipped:
        print(f"  ({len(skipped)} configurations not explored: stopped early after {sum(len(r['violations']) for r in results)} violations)")
    print(f"{prop} {tier}: configs={agg['configs']} paths={agg['paths']} obligations={agg['obligations']} "
          f"solver-discharged={agg['by_solver']} simplifier={agg['by_simplify']} trivial={agg['trivial']} nl={agg['nl']} "
          f"violations={len(new_violations)} known={sum(len(v) for v in known_hits.values())} wall={wall:.1f}s solver={agg['t_solver']:.1f}s maxq={agg['max_q']:.1f}s exit={code}")
    return code


def do_replay(mod, prop, path):
    rec = json.load(open(path))
    cfg = rec.get("cfg")
    if cfg is None:
        for c in mod.configs("thorough", 0) + mod.configs("quick", 0):
            if c["key"] == rec["config"]:
                cfg = c
                break
    if cfg is None:
        print("cannot find configuration", rec["config"])
        return 3
    ia = bool(rec["inputs"].pop("__int_arrays__", False)) if isinstance(rec.get("inputs"), dict) else False
    failed, note = concrete_run(mod, cfg, rec["inputs"], int_arrays=ia)
    print(f"replay of {rec['config']} with inputs {rec['inputs']}")
    if failed:
        for k, info in failed[:10]:
            print(f"  FAILED {k} {info or ''}")
        print(f"VIOLATION property={prop} replay={path}")
        return 1
    print("  not reproduced", note or "")
    return 0

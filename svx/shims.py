"""svx.shims -- the environment: stubs installed into flodym's *module namespaces* at run
time (``flodym.stocks.np = NpShim()`` ...).  /repo is never edited.  Every stub
delegates to the real function when no symbolic object is involved, and is only active
inside ``with installed(...)`` (the float replay runs without any of them).
"""
from __future__ import annotations

import contextlib
from fractions import Fraction
import importlib
import types

import numpy as np
import z3

from . import sym
from .sym import SymArr, SymReal, SymBool, ModelGap, _rewrap, _has_sym

USED = set()  # names of stubs that were actually exercised (reported in evidence)


def _wrapin(x):
    if isinstance(x, np.ndarray) and x.dtype == object and not isinstance(x, SymArr):
        return x.view(SymArr)
    return x


def _obj_fill_like(other, v, k):
    """*_like: numpy's default order="K" gives the new array the memory layout of the prototype"""
    a = np.empty_like(np.asarray(other), dtype=object, order=k.get("order", "K"), subok=False)
    a[...] = v
    return a.view(SymArr)


def _obj_fill(shape, v):
    a = np.empty(shape, dtype=object)
    a.fill(v)
    return a.view(SymArr)


class _NdarrayMeta(type):
    def __instancecheck__(cls, inst):
        return isinstance(inst, np.ndarray)

    def __subclasscheck__(cls, sub):
        return issubclass(sub, np.ndarray)


class _NdarrayCtor(metaclass=_NdarrayMeta):
    """``np.ndarray(shape)`` -> uninitialised object buffer; isinstance() as np.ndarray."""

    def __new__(cls, shape, *a, **k):
        USED.add("np.ndarray(shape)")
        return _obj_fill(shape, 0)


class _ErrState:
    def __init__(self, real, ignore):
        self.real, self.ignore = real, ignore

    def __enter__(self):
        if self.ignore:
            sym._DIV_IGNORE += 1
        return self.real.__enter__()

    def __exit__(self, *a):
        if self.ignore:
            sym._DIV_IGNORE -= 1
        return self.real.__exit__(*a)


class NpShim:
    """Stands for the ``np`` name inside one flodym module."""

    def __init__(self, float64_as_object=False, allclose="nondet"):
        self._f64obj = float64_as_object
        self._allclose = allclose
        self._cache = {}

    def issubdtype(self, arg1, arg2):
        """the object arrays of the symbolic run stand for float64 arrays: asked whether their dtype is a floating / inexact /
        number type, the answer is the one float64 gets (code that treats float arrays specially must be followed there)"""
        try:
            is_obj = np.dtype(arg1) == np.dtype(object)
        except TypeError:
            is_obj = False
        if is_obj and arg2 in (np.floating, np.inexact, np.number, float, np.float64):
            USED.add("np.issubdtype(object -> float64)")
            return np.issubdtype(np.float64, arg2)
        return np.issubdtype(arg1, arg2)

    def errstate(self, **kw):
        """np.errstate(...) entered by the code under analysis: with divide / invalid / all = "ignore" the code handles zero
        divisors itself (usually with np.where around the quotient), so divisions inside the block do not assume their divisor
        non-zero: the quotient carries the not-a-number flag where the divisor is zero"""
        ign = any(kw.get(k) == "ignore" for k in ("all", "divide", "invalid"))
        USED.add("np.errstate")
        return _ErrState(np.errstate(**kw), ign)

    # -- buffers: float64 buffers cannot hold terms
    def zeros(self, shape, dtype=None, **k):
        if dtype is not None and dtype not in (float, np.float64):
            return np.zeros(shape, dtype=dtype, **k)
        USED.add("np.zeros")
        return _obj_fill(shape, 0)

    def ones(self, shape, dtype=None, **k):
        if dtype is not None and dtype not in (float, np.float64):
            return np.ones(shape, dtype=dtype, **k)
        USED.add("np.ones")
        return _obj_fill(shape, 1)

    def empty(self, shape, dtype=None, **k):
        if dtype is not None and dtype not in (float, np.float64):
            return np.empty(shape, dtype=dtype, **k)
        USED.add("np.empty")
        return _obj_fill(shape, 0)

    def zeros_like(self, other, dtype=None, **k):
        if isinstance(other, np.ndarray) and other.dtype == object and dtype in (None, float, np.float64, object):
            USED.add("np.zeros_like")
            return _obj_fill_like(other, 0, k)
        return np.zeros_like(other, dtype=dtype, **k)

    def ones_like(self, other, dtype=None, **k):
        if isinstance(other, np.ndarray) and other.dtype == object and dtype in (None, float, np.float64, object):
            USED.add("np.ones_like")
            return _obj_fill_like(other, 1, k)
        return np.ones_like(other, dtype=dtype, **k)

    def empty_like(self, other, dtype=None, **k):
        if dtype is None and isinstance(other, np.ndarray) and other.dtype != object:
            return np.empty_like(other, **k)
        if dtype is not None and dtype not in (float, np.float64, object):
            return np.empty_like(other, dtype=dtype, **k)
        USED.add("np.empty_like")
        return _obj_fill_like(other, 0, k)

    def _maybe_object(self, fn, obj, dtype, k):
        """np.array / asarray(..., dtype=float) of something holding symbols keeps them (object dtype)"""
        if dtype in (float, np.float64):
            if fn == "asarray" and isinstance(obj, np.ndarray) and obj.dtype == object and _has_sym(obj) and not k:
                # np.asarray(a, dtype=float) of a float64 array IS a (no copy): the object array standing for it is handed back
                # itself, so that writes through the "converted" array reach the original as they do in float64
                USED.add("np.asarray(dtype=float)->same object array")
                return obj if isinstance(obj, SymArr) else obj.view(SymArr)
            probe = np.array(obj, dtype=object)
            if _has_sym(probe):
                USED.add(f"np.{fn}(dtype=float)->object")
                return probe.view(SymArr)
        r = getattr(np, fn)(obj, dtype=dtype, **k) if dtype is not None else getattr(np, fn)(obj, **k)
        return _rewrap(r)

    def array(self, obj, dtype=None, **k):
        return self._maybe_object("array", obj, dtype, k)

    def asarray(self, obj, dtype=None, **k):
        return self._maybe_object("asarray", obj, dtype, k)

    def ascontiguousarray(self, obj, dtype=None, **k):
        return self._maybe_object("ascontiguousarray", obj, dtype, k)

    def asfortranarray(self, obj, dtype=None, **k):
        return self._maybe_object("asfortranarray", obj, dtype, k)

    def full(self, shape, fill_value, dtype=None, **k):
        if dtype is not None and dtype not in (float, np.float64, object):
            return np.full(shape, fill_value, dtype=dtype, **k)
        USED.add("np.full")
        a = np.empty(shape, dtype=object)
        a[...] = fill_value  # numpy broadcasting semantics of np.full
        return a.view(SymArr)

    def full_like(self, other, fill_value, dtype=None, **k):
        if _has_sym(fill_value) or (isinstance(other, np.ndarray) and other.dtype == object and dtype in (None, float, np.float64, object, SymReal)):
            USED.add("np.full_like")
            a = np.empty_like(np.asarray(other), dtype=object, order=k.get("order", "K"), subok=False) if isinstance(other, np.ndarray) else np.empty(np.shape(other), dtype=object)
            a[...] = fill_value
            return a.view(SymArr)
        return np.full_like(other, fill_value, dtype=dtype, **k)

    ndarray = _NdarrayCtor

    @property
    def float64(self):
        if self._f64obj:
            USED.add("np.float64->object")
            return object
        return np.float64

    def allclose(self, a, b, rtol=1e-05, atol=1e-08, equal_nan=False):
        if _has_sym(a) or _has_sym(b):
            USED.add("np.allclose")
            def _all_zero(v):
                try:
                    arr = np.asarray(v, dtype=object)
                    return arr.size > 0 and not _has_sym(arr) and all(float(z) == 0.0 for z in arr.flat)
                except Exception:
                    return False

            zero_guard = _all_zero(a) or _all_zero(b)  # the one pattern of the clean tree: allclose(driver, zeros) before a warning
            if self._allclose == "false" and zero_guard:
                # = the drivers are assumed not to be within 1e-8 of zero throughout (an input-space restriction, stated per check)
                return False
            if self._allclose == "nondet" and zero_guard:
                # only guards a logging.warning in flodym: both outcomes are explored, values unconstrained
                c = sym.ctx()
                c._nd = getattr(c, "_nd", 0) + 1
                return c.branch(z3.Bool(f"nondet_allclose_{c._nd}"))
            # "model", and every call that is not the zero-driver guard whatever the mode (a comparison of unknown role must not
            # be answered by assumption): numpy's documented definition all(|a - b| <= atol + rtol * |b|), as one merged term
            A = np.asarray(a, dtype=object)
            B = np.asarray(b, dtype=object)
            conj = []
            for x, y in np.broadcast(A, B):
                x, y = sym._sr(x), sym._sr(y)
                conj.append((abs(x - y) <= SymReal.lit(Fraction(atol)) + SymReal.lit(Fraction(rtol)) * abs(y)).t)
            return sym.ctx().branch(z3.And(*conj)) if conj else True
        return np.allclose(np.asarray(a, dtype=float), np.asarray(b, dtype=float), rtol=rtol, atol=atol, equal_nan=equal_nan)

    def isclose(self, a, b, rtol=1e-05, atol=1e-08, equal_nan=False):
        """np.isclose by numpy's definition, entry by entry, as merged terms: |a - b| <= atol + rtol * |b| (NaN flags: never
        close unless equal_nan and both NaN)"""
        if _has_sym(a) or _has_sym(b):
            USED.add("np.isclose (merged)")
            A, B = np.broadcast_arrays(np.asarray(a, dtype=object), np.asarray(b, dtype=object))
            out = np.empty(A.shape, dtype=object)
            for idx in np.ndindex(*A.shape):
                x, y = sym._sr(A[idx]), sym._sr(B[idx])
                t = (abs(x - y) <= SymReal.lit(Fraction(atol)) + SymReal.lit(Fraction(rtol)) * abs(y)).t
                if x.nan is not None or y.nan is not None:
                    nx = x.nan if x.nan is not None else z3.BoolVal(False)
                    ny = y.nan if y.nan is not None else z3.BoolVal(False)
                    t = z3.If(z3.Or(nx, ny), z3.And(nx, ny) if equal_nan else z3.BoolVal(False), t)
                out[idx] = SymBool(t, nl=x.nl or y.nl)
            return out.view(SymArr) if out.shape else out[()]
        return np.isclose(a, b, rtol=rtol, atol=atol, equal_nan=equal_nan)

    def clip(self, a, a_min=None, a_max=None, out=None, **k):
        if _has_sym(a) or _has_sym(a_min) or _has_sym(a_max):
            USED.add("np.clip (merged)")
            r = _wrapin(np.asarray(a, dtype=object))
            if a_min is not None:
                r = sym._vec2(sym._max2, r, a_min)
            if a_max is not None:
                r = sym._vec2(sym._min2, r, a_max)
            if out is not None:
                out[...] = r
                return out
            return r
        return np.clip(a, a_min, a_max, out=out, **k)

    def where(self, cond, *xy):
        """np.where(cond, x, y) with symbolic conditions or branches: one ite term per entry (no fork)"""
        if len(xy) == 2 and (_has_sym(cond) or _has_sym(xy[0]) or _has_sym(xy[1])):
            USED.add("np.where (merged)")
            c, x, y = np.broadcast_arrays(np.asarray(cond, dtype=object), np.asarray(xy[0], dtype=object), np.asarray(xy[1], dtype=object))
            out = np.empty(c.shape, dtype=object)
            for idx in np.ndindex(*c.shape):
                ci = c[idx]
                if isinstance(ci, SymBool) and (z3.is_true(ci.t) or z3.is_false(ci.t)):
                    ci = z3.is_true(ci.t)
                if isinstance(ci, SymBool):
                    a, b = sym._sr(x[idx]), sym._sr(y[idx])
                    nan = None
                    if a.nan is not None or b.nan is not None:
                        nan = z3.If(ci.t, a.nan if a.nan is not None else z3.BoolVal(False), b.nan if b.nan is not None else z3.BoolVal(False))
                    out[idx] = SymReal(z3.If(ci.t, a.t, b.t), nl=a.nl or b.nl or ci.nl, nan=nan)
                else:
                    out[idx] = x[idx] if bool(ci) else y[idx]
            return out.view(SymArr) if out.shape else out[()]
        return np.where(cond, *xy)

    def round(self, a, decimals=0, out=None):
        """rounding to a number of decimals is not a function of the exact-real model (the object loop would fail with a
        TypeError that passes for a finding): stated as a model gap; the float64 shadow run still sees what rounding does"""
        if _has_sym(a):
            raise ModelGap("np.round on symbolic values (rounding to decimals is outside the exact-real model)")
        return np.round(a, decimals, out=out)

    around = round

    def argmax(self, a, axis=None, **k):
        """np.argmax of a 1-d boolean mask with symbolic entries (the usual "first position where ..." idiom): the position
        is decided by branching on the entries in order (one path per position, plus the all-False path, which gives 0)"""
        if isinstance(a, np.ndarray) and a.dtype == object and any(isinstance(m, SymBool) for m in a.flat):
            if a.ndim != 1 or axis not in (None, 0, -1) or k or not all(isinstance(m, (SymBool, bool, np.bool_)) for m in a.flat):
                raise ModelGap("np.argmax on symbolic values other than a 1-d boolean mask")
            USED.add("np.argmax (first true entry, by branching)")
            for i, m in enumerate(a):
                if bool(m):
                    return i
            return 0
        return np.argmax(a, axis=axis, **k)

    def nan_to_num(self, x, copy=True, nan=0.0, posinf=None, neginf=None):
        """np.nan_to_num on symbolic reals: an entry whose NaN flag holds becomes `nan` (default 0.0); infinities do not exist
        in the exact-real model.  copy=False writes into x, as numpy does for float arrays."""
        if isinstance(x, np.ndarray) and x.dtype == object:
            USED.add("np.nan_to_num")
            out = x.copy() if copy else x
            for idx in np.ndindex(*x.shape):
                v = x[idx]
                if isinstance(v, SymReal) and v.nan is not None:
                    r = sym._sr(nan)
                    out[idx] = SymReal(z3.If(v.nan, r.t, v.t), nl=v.nl)
                elif v is None or isinstance(v, (float, np.floating)):
                    # a concrete entry of the object buffer: numpy's own rule (None is what an object column holds where the
                    # float64 column holds NaN)
                    out[idx] = float(np.nan_to_num(float("nan") if v is None else float(v), nan=nan, posinf=posinf, neginf=neginf))
            return out
        return np.nan_to_num(x, copy=copy, nan=nan, posinf=posinf, neginf=neginf)

    def gradient(self, f, *varargs, **k):
        """np.gradient of a 1-d array of symbols with unit spacing: central differences inside, one-sided at both ends
        (numpy's default edge_order=1); numpy itself would convert an object array to double"""
        if isinstance(f, np.ndarray) and f.dtype == object and _has_sym(f):
            if varargs or k or f.ndim != 1 or f.shape[0] < 2:
                raise ModelGap("np.gradient with spacing arguments / more than one axis on symbolic values")
            USED.add("np.gradient")
            n = f.shape[0]
            out = np.empty(n, dtype=object)
            out[0] = f[1] - f[0]
            out[n - 1] = f[n - 1] - f[n - 2]
            for i in range(1, n - 1):
                out[i] = (f[i + 1] - f[i - 1]) / 2
            return out.view(SymArr)
        return np.gradient(f, *varargs, **k)

    def isnan(self, a):
        a = _wrapin(a) if isinstance(a, np.ndarray) else a
        if isinstance(a, np.ndarray) and a.dtype == object:
            USED.add("np.isnan")
            return sym._vec1(sym._isnan1, a.view(SymArr))
        if isinstance(a, SymReal):
            return sym._isnan1(a)
        return np.isnan(a)

    def finfo(self, dtype):
        if dtype == object:
            USED.add("np.finfo(object)->float64")
            return np.finfo(np.float64)
        return np.finfo(dtype)

    def __getattr__(self, name):
        if name.startswith("__"):
            raise AttributeError(name)
        real = getattr(np, name)
        if isinstance(real, (type, types.ModuleType)) or not callable(real):
            return real
        if name in self._cache:
            return self._cache[name]

        def wrapped(*a, **k):
            if name in ("sqrt", "log", "exp") and len(a) == 1 and isinstance(a[0], np.ndarray) and a[0].dtype == object and not _has_sym(a[0]):
                return real(np.asarray(a[0], dtype=float), **k)
            a = [_wrapin(x) for x in a]
            r = _rewrap(real(*a, **k))
            if name == "einsum" and isinstance(r, (SymReal, SymBool)):
                # float einsum returns a numpy scalar (indexable like a 0-d array); keep that
                z = np.empty((), dtype=object)
                z[()] = r
                r = z.view(SymArr)
            return r

        wrapped.__name__ = name
        self._cache[name] = wrapped
        return wrapped


# ---------------------------------------------------------------- scipy.stats stubs
def _sf_stub(dist, argnames):
    """broadcasting wrapper returning the uninterpreted application dist_sf(x, *params)"""
    def sf(x, *args, **kwargs):
        f = sym.uf(dist + "_sf", len(argnames) + 3)
        USED.add(f"scipy.stats.{dist}.sf")
        vals = dict(loc=0, scale=1)
        names = list(argnames) + ["loc", "scale"]
        if len(args) > len(names):
            raise TypeError("too many positional arguments")
        for n, v in zip(names, args):
            vals[n] = v
        for n, v in kwargs.items():
            if n not in names:
                raise TypeError(f"unexpected keyword {n}")
            if n in vals and n in names[: len(args)]:
                raise TypeError(f"multiple values for {n}")
            vals[n] = v
        for n in argnames:
            if n not in vals:
                raise TypeError(f"missing shape parameter {n}")
        params = [vals[n] for n in names]
        if not any(_has_sym(np.asarray(p, dtype=object)) if isinstance(p, np.ndarray) else isinstance(p, (SymReal, SymBool)) for p in [x] + params):
            # nothing symbolic involved: the real scipy kernel (its floats are lifted exactly later)
            import scipy.stats as _st
            real = getattr(_st, "weibull_min" if dist == "weibull" else dist)
            fl = [np.asarray(p, dtype=float) for p in [x] + params]
            r = np.asarray(real.sf(fl[0], *fl[1:-2], loc=fl[-2], scale=fl[-1]))
            # lifted as exact constants so that flodym's later arithmetic on the table stays exact
            out = np.empty(r.shape, dtype=object)
            out.flat = [SymReal.lit(Fraction(float(v))) for v in r.flat]
            return out.view(SymArr) if out.ndim else out[()]
        arrs = [np.asarray(p, dtype=object) for p in [x] + params]
        bc = np.broadcast(*arrs)
        out = np.empty(bc.shape, dtype=object)
        cells = []
        for tup in bc:
            ts = [sym.term(v) for v in tup]
            app = f(*ts)
            c = sym._CTX
            if c is not None:
                if not hasattr(c, "sf_apps"):
                    c.sf_apps = {}
                c.sf_apps[app.hash()] = (dist, app, ts)
            cells.append(SymReal(app))
        out.flat = cells
        return out.view(SymArr) if out.ndim else out[()]

    return sf


class _Dist:
    def __init__(self, name, argnames):
        self.sf = _sf_stub(name, argnames)


class ScipyShim:
    class stats:
        norm = _Dist("norm", [])
        foldnorm = _Dist("foldnorm", ["c"])
        lognorm = _Dist("lognorm", ["s"])
        weibull_min = _Dist("weibull", ["c"])


def solve_triangular_stub(a, b, trans=0, lower=False, unit_diagonal=False, overwrite_b=False, check_finite=True):
    """contract stub for scipy.linalg.solve_triangular: x with tri(a) x = b (a function of its inputs).
    overwrite_b=True: the documented contract lets the routine destroy b; modelled by writing
    unconstrained fresh values into b (what LAPACK does with a contiguous b is one instance)."""
    if not (_has_sym(a) or _has_sym(b)):
        from scipy.linalg import solve_triangular as real
        return real(np.asarray(a, dtype=float), np.asarray(b, dtype=float), trans=trans, lower=lower)
    USED.add("scipy.linalg.solve_triangular")
    b_in = b
    a = np.asarray(a, dtype=object)
    b = np.asarray(b, dtype=object)
    if a.ndim != 2 or a.shape[0] != a.shape[1]:
        raise ValueError("expected square matrix")
    n = a.shape[0]
    if b.shape[0] != n:
        raise ValueError(f"shapes of a {a.shape} and b {b.shape} are incompatible")
    if b.ndim not in (1, 2):
        raise ModelGap("solve_triangular stub models vector and matrix right-hand sides only")
    if b.ndim == 2:
        cols = [solve_triangular_stub(a, b[:, k].copy(), trans=trans, lower=lower, unit_diagonal=unit_diagonal, check_finite=check_finite) for k in range(b.shape[1])]
        out = np.empty(b.shape, dtype=object)
        for k, col in enumerate(cols):
            out[:, k] = col
        res = out.view(SymArr)
    else:
        if unit_diagonal:
            # documented contract: the diagonal of a is assumed to be 1 and is not referenced
            a = a.copy()
            for i in range(n):
                a[i, i] = 1
        res = _solve_tri_vec(a, b, trans, lower, n)
    if overwrite_b and isinstance(b_in, np.ndarray):
        c = sym.ctx()
        c._tri_ow = getattr(c, "_tri_ow", 0) + 1
        junk = np.empty(b_in.shape, dtype=object)
        junk.flat = [SymReal(z3.Real(f"tri_overwritten{c._tri_ow}_{i}")) for i in range(b_in.size)]
        b_in[...] = junk
    return res


def _solve_tri_vec(a, b, trans, lower, n):
    c = sym.ctx()
    # solve_triangular is a function of its inputs: the same (triangle, rhs) terms give the same x
    tr = trans in (1, 2, "T", "C")
    sig = (bool(lower), tr) + tuple(sym.term(a[i, j]).hash() for i in range(n) for j in range(n) if ((j <= i) if lower else (j >= i))) + tuple(sym.term(v).hash() for v in b)
    cache = getattr(c, "_tri_cache", None)
    if cache is None:
        cache = c._tri_cache = {}
    if sig in cache:
        out = np.empty(n, dtype=object)
        out[:] = cache[sig]
        return out.view(SymArr)
    c._tri = getattr(c, "_tri", 0) + 1
    xs = [SymReal(z3.Real(f"tri{c._tri}_x{i}")) for i in range(n)]
    cache[sig] = xs
    for i in range(n):
        acc = 0
        rng = range(0, i + 1) if (lower != tr) else range(i, n)
        for j in rng:
            aij = a[j, i] if tr else a[i, j]
            acc = acc + aij * xs[j]
        c.assume(sym.term(acc) == sym.term(b[i]))
        # LAPACK's contract requires a non-singular triangle
        c.assume(sym.term(a[i, i]) != 0)
    out = np.empty(n, dtype=object)
    out[:] = xs
    return out.view(SymArr)


def merged_max(*args, default=None, key=None):
    """builtin max without forking: folds into ite terms (float semantics of Python's max
    on comparable reals)."""
    if key is not None:
        raise ModelGap("max(key=...)")
    seq = list(args[0]) if len(args) == 1 else list(args)
    if not seq:
        if default is not None:
            return default
        raise ValueError("max() iterable argument is empty")
    if not any(isinstance(x, (SymReal, SymBool)) for x in seq):
        return max(seq)
    USED.add("builtin max (merged)")
    acc = seq[0]
    for x in seq[1:]:
        a, b = sym._sr(acc), sym._sr(x)
        # Python: max keeps the first unless a later one is strictly greater; every comparison with a NaN is False, so a
        # NaN is kept when it is the accumulator and dropped when it is the later element (builtin max does not propagate NaN)
        take = b.t > a.t
        if a.nan is not None:
            take = z3.And(z3.Not(a.nan), take)
        if b.nan is not None:
            take = z3.And(z3.Not(b.nan), take)
        acc = SymReal(z3.If(take, b.t, a.t), nl=a.nl or b.nl, nan=a.nan)
    return acc


# ---------------------------------------------------------------- installation
def default_plan(allclose="nondet"):
    """(module, attribute, replacement) for every stub of DESIGN.md 2.4."""
    return [
        ("flodym.flodym_arrays", "np", NpShim()),
        ("flodym.stocks", "np", NpShim(allclose=allclose)),
        ("flodym.stocks", "solve_triangular", solve_triangular_stub),
        ("flodym.lifetime_models", "np", NpShim(allclose=allclose)),
        ("flodym.lifetime_models", "scipy", ScipyShim),
        ("flodym.mfa_system", "np", NpShim()),
        ("flodym.mfa_system", "max", merged_max),
        ("flodym._df_to_flodym_array", "np", NpShim(float64_as_object=True)),
        ("flodym.dimensions", "np", NpShim()),
        ("flodym.export.array_plotter", "np", NpShim()),
        ("flodym.export.sankey", "np", NpShim()),
    ]


_MISSING = object()


@contextlib.contextmanager
def installed(plan=None, **kw):
    plan = default_plan(**kw) if plan is None else plan
    saved = []
    try:
        for modname, attr, repl in plan:
            try:
                mod = importlib.import_module(modname)
            except Exception:
                continue
            saved.append((mod, attr, mod.__dict__.get(attr, _MISSING)))
            setattr(mod, attr, repl)
        yield
    finally:
        for mod, attr, old in reversed(saved):
            if old is _MISSING:
                try:
                    delattr(mod, attr)
                except AttributeError:
                    pass
            else:
                setattr(mod, attr, old)

"""svx.world -- the value factory a harness is written against.

The same harness code runs in two modes:
  * symbolic: inputs are fresh z3 reals (SymReal in SymArr), obligations are SymBools
    decided by the solver under the path condition;
  * concrete (replay / shadow): inputs are float64 taken from a solver model (or
    defaults), flodym runs unstubbed, obligations are evaluated numerically.
"""
from __future__ import annotations

from fractions import Fraction

import numpy as np
import z3

from . import sym
from .sym import SymReal, SymBool, SymArr


class EqBool(SymBool):
    """an equality obligation that remembers its two sides (for robust counterexamples)"""

    __slots__ = ("lhs", "rhs")

    def __init__(self, t, nl, lhs, rhs):
        super().__init__(t, nl)
        self.lhs = lhs
        self.rhs = rhs


class Ob:
    __slots__ = ("key", "cond", "chain", "info")

    def __init__(self, key, cond, chain=False, info=None):
        self.key = key
        self.cond = cond
        self.chain = chain  # proved obligations become lemmas for the later ones
        self.info = info


RTOL = 1e-9


class World:
    def __init__(self, symbolic, ctx=None, values=None, int_arrays=False):
        self.sym = symbolic
        self.int_arrays = int_arrays and not symbolic  # concrete mode only: arrays of an integer dtype (dtype shadow)
        self.ctx = ctx
        self.values = values or {}
        self.inputs = {}  # name -> z3 const (symbolic) / float (concrete)
        self._n = 0
        self.obs = []
        self.notes = {}
        self.n_lemmas = 0
        self.floor = 1.0  # magnitude floor of the float-mode comparison tolerance (see set_scale)
        self.n_struct = 0  # equalities closed by structural identity of the two terms

    # ------------------------------------------------------------------ inputs
    def _default(self, name):
        self._n += 1
        # distinct, non-integer, moderate magnitude, exactly representable
        v = Fraction(2 * self._n + 1, 8) + Fraction(self._n % 3, 1)
        return -v if self._n % 4 == 3 else v  # mixed signs: sign-dependent slips show on the default inputs too

    def real(self, name, default=None):
        if name in self.inputs:
            raise RuntimeError(f"duplicate input name {name}")
        if self.sym:
            t = z3.Real(name)
            self.inputs[name] = t
            self._n += 1
            return SymReal(t)
        v = self.values.get(name)
        d = self._default(name)
        if v is None:
            v = d if default is None else Fraction(default)
        self.inputs[name] = v
        return float(v)

    def arr(self, name, shape, default=None):
        shape = tuple(shape)
        a = np.empty(shape, dtype=object if self.sym else np.float64)
        for idx in np.ndindex(*shape):
            nm = name + "".join(f"_{i}" for i in idx)
            d = None
            if default is not None:
                d = default(idx) if callable(default) else default
            a[idx] = self.real(nm, d)
        if self.int_arrays and a.size:
            # whole numbers of mixed sign in an integer dtype: what a user gets from counts, np.arange or a CSV of integers
            ints = np.array([(3 + 2 * k) * (-1 if k % 4 == 3 else 1) for k in range(a.size)], dtype=np.int64).reshape(shape)
            for idx in np.ndindex(*shape):
                self.inputs[name + "".join(f"_{i}" for i in idx)] = Fraction(int(ints[idx]))
            return ints
        return a.view(SymArr) if self.sym else a

    def boolean(self, name, default=False):
        """a free boolean input (e.g. 'this entry is NaN')"""
        if self.sym:
            t = z3.Bool(name)
            self.inputs[name] = t
            return SymBool(t)
        v = self.values.get(name, default)
        self.inputs[name] = bool(v)
        return bool(v)

    def with_nan(self, x, flag):
        """attach a NaN flag to an input value"""
        if self.sym:
            return SymReal(x.t, nl=x.nl, nan=flag.t if isinstance(flag, SymBool) else z3.BoolVal(bool(flag)))
        return float("nan") if flag else x

    def set_scale(self, *arrays):
        """float mode: compare relative to the magnitude of these inputs (results that are linear in
        them scale with them; a violation at a tiny input scale must not drown in an absolute floor)"""
        if self.sym:
            return
        m = 0.0
        for a in arrays:
            for v in np.ravel(np.asarray(a, dtype=float)):
                if v == v:
                    m = max(m, abs(float(v)))
        if m > 0:
            self.floor = min(self.floor, m) if m < 1.0 else self.floor

    def assume_distinct(self, *arrays):
        """cell values pairwise different (keeps hash-container equality tests from forking per pair)"""
        if not self.sym:
            return
        ts = [sym.term(v) for a in arrays for v in np.ravel(np.asarray(a, dtype=object))]
        if len(ts) > 1:
            self.ctx.assume(z3.Distinct(*ts))

    def const(self, x):
        """exact constant in both modes"""
        return x

    # ------------------------------------------------------------------ logic
    def assume(self, cond):
        if self.sym:
            self.ctx.assume(cond)
        else:
            if not cond:
                raise AssumptionViolated(str(cond))

    def eq(self, a, b):
        if isinstance(a, (SymReal, SymBool)) or isinstance(b, (SymReal, SymBool)):
            if isinstance(a, SymBool):
                a = a.as_real()
            if isinstance(b, SymBool):
                b = b.as_real()
            ta, tb = sym.term(a), sym.term(b)
            nl = getattr(a, "nl", False) or getattr(b, "nl", False)
            na, nb = sym.nanflag(a), sym.nanflag(b)
            if ta.eq(tb) and na is None and nb is None:
                self.n_struct += 1
                return True
            t = ta == tb
            if na is not None or nb is not None:
                fa = na if na is not None else z3.BoolVal(False)
                fb = nb if nb is not None else z3.BoolVal(False)
                t = z3.And(fa == fb, z3.Or(fa, t))
            return EqBool(t, nl, ta, tb)
        a = float(a)
        b = float(b)
        if a != a or b != b:
            return (a != a) and (b != b)
        if a in (float("inf"), float("-inf")) or b in (float("inf"), float("-inf")):
            return a == b  # an infinite entry equals only itself (float64 runs only: the exact-real model has no infinities)
        return abs(a - b) <= RTOL * max(self.floor, abs(a), abs(b))

    def same(self, a, b):
        """data movement: must be the identical entry (same symbol / same float)"""
        return self.eq(a, b)

    def le(self, a, b):
        r = a <= b
        if isinstance(r, SymBool):
            return r
        return bool(a <= b + RTOL * max(self.floor, abs(a), abs(b)))

    def lt(self, a, b):
        r = a < b
        return r if isinstance(r, SymBool) else bool(r)

    def gt(self, a, b):
        r = a > b
        return r if isinstance(r, SymBool) else bool(r)

    def ge(self, a, b):
        r = a >= b
        if isinstance(r, SymBool):
            return r
        return bool(a >= b - RTOL * max(self.floor, abs(a), abs(b)))

    def ne(self, a, b):
        r = a != b
        return r if isinstance(r, SymBool) else bool(r)

    @staticmethod
    def _b(x):
        if isinstance(x, SymBool):
            return x.t, x.nl
        return z3.BoolVal(bool(x)), False

    def and_(self, *xs):
        if any(isinstance(x, SymBool) for x in xs):
            ts = [self._b(x) for x in xs]
            return SymBool(z3.And(*[t for t, _ in ts]), any(n for _, n in ts))
        return all(bool(x) for x in xs)

    def or_(self, *xs):
        if any(isinstance(x, SymBool) for x in xs):
            ts = [self._b(x) for x in xs]
            return SymBool(z3.Or(*[t for t, _ in ts]), any(n for _, n in ts))
        return any(bool(x) for x in xs)

    def not_(self, x):
        if isinstance(x, SymBool):
            return SymBool(z3.Not(x.t), x.nl)
        return not x

    def implies(self, a, b):
        return self.or_(self.not_(a), b)

    def iff(self, a, b):
        if isinstance(a, SymBool) or isinstance(b, SymBool):
            ta, na = self._b(a)
            tb, nb = self._b(b)
            return SymBool(ta == tb, na or nb)
        return bool(a) == bool(b)

    def ite(self, c, a, b):
        if isinstance(c, SymBool):
            a2, b2 = sym._sr(a), sym._sr(b)
            return SymReal(z3.If(c.t, a2.t, b2.t), nl=c.nl or a2.nl or b2.nl, nan=_ite_nan(c.t, a2.nan, b2.nan))
        return a if c else b

    def max(self, a, b):
        if isinstance(a, SymReal) or isinstance(b, SymReal):
            return sym._max2(a, b)
        return max(a, b)

    def min(self, a, b):
        if isinstance(a, SymReal) or isinstance(b, SymReal):
            return sym._min2(a, b)
        return min(a, b)

    def abs(self, a):
        return abs(a)

    def isnan(self, a):
        if isinstance(a, SymReal):
            return SymBool(a.nan) if a.nan is not None else False
        return a != a

    # ------------------------------------------------------------------ obligations
    def ob(self, key, cond, chain=False, info=None):
        self.obs.append(Ob(key, cond, chain, info))

    def lemma_eq(self, key, a, b):
        """an equality obligation that is decided *now* and, if it holds on this path, handed to the
        path's solver as a lemma (sound: it was proved under the same assumptions).  Used where the
        code under test later branches on quantities that are only equal modulo nonlinear reasoning."""
        cond = self.eq(a, b)
        if not self.sym or cond is True:
            self.obs.append(Ob(key, cond))
            return
        from .runner import prove_now
        ok, model_inputs = prove_now(self.ctx, self, cond)
        if ok is True:
            self.obs.append(Ob(key, True, info="lemma"))
            self.n_lemmas += 1
            self.ctx.assume(cond)
            if isinstance(cond, EqBool) and not z3.is_rational_value(cond.lhs) and not z3.is_const(cond.lhs):
                self.ctx.subst.append((cond.lhs, cond.rhs))
        elif ok is False:
            self.obs.append(Ob(key, cond))  # will be re-decided and reported by the normal discharge
        else:
            self.obs.append(Ob(key, cond))

    def ob_eq(self, key, a, b, chain=False):
        self.obs.append(Ob(key, self.eq(a, b), chain))

    def ob_arr_eq(self, key, got, want, chain=False):
        """entrywise equality of two arrays (shape mismatch is itself a failed obligation)"""
        gs, ws = np.shape(got), np.shape(want)
        if gs != ws:
            self.ob(f"{key}:shape", False, info=f"shape {gs} != expected {ws}")
            return
        g = np.asarray(got)
        wv = np.asarray(want)
        if g.ndim == 0:
            self.ob_eq(key, g[()], wv[()], chain)
            return
        for idx in np.ndindex(*gs):
            self.ob_eq(f"{key}{list(idx)}", g[idx], wv[idx], chain)


def _ite_nan(c, na, nb):
    if na is None and nb is None:
        return None
    fa = na if na is not None else z3.BoolVal(False)
    fb = nb if nb is not None else z3.BoolVal(False)
    return z3.If(c, fa, fb)


class AssumptionViolated(Exception):
    pass

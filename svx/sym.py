"""svx.sym -- symbolic reals / booleans / letters and the path explorer.

Symbolic scalars live inside numpy ``dtype=object`` arrays, so that the *real* flodym
code (einsum, tile, fancy indexing, pandas melt/pivot/map, ...) runs on them unchanged
and produces z3 terms instead of floats.  Every value-dependent decision is a
solver-checked fork (re-execution with decision prefixes).
"""
from __future__ import annotations

import numbers
import time
from fractions import Fraction

import numpy as np
import z3


# --------------------------------------------------------------------------- control
class EngineSignal(BaseException):
    """Base of the engine's own control exceptions (never caught by ``except Exception``)."""


class Concretised(EngineSignal):
    """The code under test forced a symbolic value into a machine number: model hole."""


class ModelGap(EngineSignal):
    """Something the model does not cover was reached (inconclusive, never green)."""


class PathLimit(EngineSignal):
    pass


# --------------------------------------------------------------------------- context
class Ctx:
    """One execution path: an incremental solver with assumptions + decisions so far."""

    def __init__(self, prefix=(), max_depth=400, timeout_ms=20000):
        self.solver = z3.Solver()
        self.solver.set("timeout", 1500)
        self.prefix = list(prefix)
        self.pos = 0
        self.trace = []  # [(cond, taken, other_feasible)]
        self.assumptions = []
        self.nq = 0
        self.t_solver = 0.0
        self.max_depth = max_depth
        self.cands = ()  # candidate integers for int()/hash() case splits
        self.same_hash = False
        self.log = []  # harness-level event log (e.g. logging records)
        self.forks = 0
        self._divs = {}
        self.purify_div = False
        self.decided = {}
        self._keep = []
        self.subst = []
        self.nl_mode = False
        self.fresh_timeout_ms = 30000
        self.inc_timeout_ms = 2000
        self._nq_pur = 0
        self._pur_cache = {}

    # -- assumptions
    def assume(self, cond):
        if isinstance(cond, SymBool):
            cond = cond.t
        if isinstance(cond, (bool, np.bool_)):
            if not cond:
                raise ModelGap("assumption is concretely false")
            return
        self.assumptions.append(cond)
        self.solver.add(cond)

    def _check(self, *extra):
        t0 = time.time()
        self.nq += 1
        r = self.solver.check(*extra)
        self.t_solver += time.time() - t0
        return r

    def _fresh_check(self, extra, retry=True, factor=1):
        """non-incremental solver (nlsat) for nonlinear branch conditions"""
        s = z3.Solver()
        s.set("timeout", factor * self.fresh_timeout_ms)
        for a in self.assumptions:
            s.add(a)
        for p in self.path_condition():
            s.add(p)
        s.add(extra)
        t0 = time.time()
        self.nq += 1
        r = s.check()
        if r == z3.unknown and retry:
            # once more with four times the budget before the path is given up as inconclusive (a loaded machine must not
            # turn a feasibility question into exit 2)
            s.set("timeout", 4 * self.fresh_timeout_ms)
            self.nq += 1
            self.fresh_retried = getattr(self, "fresh_retried", 0) + 1
            r = s.check()
        self.t_solver += time.time() - t0
        return r

    def branch(self, cond):
        if self.subst:
            # proven lemmas "complex term == simple term": rewrite before deciding (sound: each was
            # proved under this path's assumptions)
            cond = z3.substitute(cond, *self.subst)
        cond = z3.simplify(cond, som=True, som_blowup=100000)
        if z3.is_true(cond):
            return True
        if z3.is_false(cond):
            return False
        hit = self.decided.get(cond.get_id())
        if hit is not None:
            return hit  # the same literal was already decided on this path
        r = self._branch(cond)
        self.decided[cond.get_id()] = r
        self._keep.append(cond)
        return r

    def _branch(self, cond):
        if self.pos < len(self.prefix):
            taken = self.prefix[self.pos]
            other = None  # already handled by the run that scheduled us
        else:
            if len(self.trace) >= self.max_depth:
                raise PathLimit("max path depth exceeded")
            if self.nl_mode:
                rt = self._fresh_check(cond)
                rf = self._fresh_check(z3.Not(cond))
            else:
                rt = self._check(cond)
                if rt == z3.unknown:
                    self.nl_mode = True  # the incremental core gave up once: stay on fresh (nlsat) solvers
                    rt = self._fresh_check(cond)
                    rf = self._fresh_check(z3.Not(cond))
                else:
                    rf = self._check(z3.Not(cond))
                    if rf == z3.unknown:
                        self.nl_mode = True
                        rf = self._fresh_check(z3.Not(cond))
            if rt == z3.unknown or rf == z3.unknown:
                raise ModelGap("unknown feasibility of a branch condition")
            if rt == z3.sat:
                taken = True
                other = rf == z3.sat
            elif rf == z3.sat:
                taken = False
                other = False
            else:
                raise ModelGap("infeasible path reached")
            if other:
                self.forks += 1
        self.pos += 1
        self.solver.add(cond if taken else z3.Not(cond))
        self.trace.append((cond, taken, other))
        return taken

    def divisor(self, t):
        """flodym divided by the symbolic term t: inputs making it zero are outside every claim"""
        h = t.hash()
        if h in self._divs:
            return
        self._divs[h] = t
        self.assume(t != 0)

    def path_condition(self):
        return [c if t else z3.Not(c) for (c, t, _o) in self.trace]


_CTX: Ctx | None = None
_DIV_IGNORE = 0  # > 0 inside np.errstate(divide= / invalid= / all="ignore") as entered by the code under analysis


def ctx() -> Ctx:
    if _CTX is None:
        raise ModelGap("symbolic decision outside an exploration context")
    return _CTX


def set_ctx(c):
    global _CTX
    _CTX = c


def explore(fn, max_paths=2000, max_depth=400, setup=None, timeout_ms=20000):
    """Run ``fn(ctx)`` once per feasible path (DFS over decision prefixes).

    Yields (ctx, outcome) where outcome is ("ok", value) or ("exc", exception).
    Engine signals propagate.
    """
    stack = [[]]
    n = 0
    while stack:
        prefix = stack.pop()
        c = Ctx(prefix, max_depth=max_depth, timeout_ms=timeout_ms)
        set_ctx(c)
        try:
            if setup is not None:
                setup(c)
            try:
                out = ("ok", fn(c))
            except Exception as e:  # flodym raising is an ordinary outcome
                out = ("exc", e)
        finally:
            set_ctx(None)
        n += 1
        decisions = [t for (_c, t, _o) in c.trace]
        for i in range(len(prefix), len(c.trace)):
            if c.trace[i][2]:
                stack.append(decisions[:i] + [not decisions[i]])
        set_ctx(c)  # obligations are discharged by the caller under this context
        try:
            yield c, out
        finally:
            set_ctx(None)
        if n > max_paths:
            raise PathLimit(f"more than {max_paths} paths")


# --------------------------------------------------------------------------- lifting
_ZERO = None


def _rv(x):
    """exact z3 RealVal of a python/numpy number"""
    if isinstance(x, (bool, np.bool_)):
        return z3.RealVal(int(x))
    if isinstance(x, (int, np.integer)):
        return z3.RealVal(int(x))
    if isinstance(x, Fraction):
        return z3.RealVal(str(x))
    if isinstance(x, (float, np.floating)):
        x = float(x)
        if x != x or x in (float("inf"), float("-inf")):
            raise ModelGap("nan/inf constant met a symbolic value")
        return z3.RealVal(str(Fraction(x)))
    return None


def is_concrete_number(x):
    return isinstance(x, (bool, np.bool_, int, np.integer, float, np.floating, Fraction))


def term(x):
    if isinstance(x, SymReal):
        return x.t
    r = _rv(x)
    if r is None:
        raise TypeError(f"cannot lift {type(x)} to a real term")
    return r


def nanflag(x):
    return x.nan if isinstance(x, SymReal) else None


def _or(a, b):
    if a is None:
        return b
    if b is None:
        return a
    return z3.Or(a, b)


# --------------------------------------------------------------------------- SymBool
class SymBool:
    __slots__ = ("t", "nl")

    def __init__(self, t, nl=False):
        self.t = t
        self.nl = nl

    def __bool__(self):
        return ctx().branch(self.t)

    def _o(self, o):
        if isinstance(o, SymBool):
            return o.t, o.nl
        if isinstance(o, (bool, np.bool_)):
            return z3.BoolVal(bool(o)), False
        return None, False

    def __and__(self, o):
        t, nl = self._o(o)
        if t is None:
            return NotImplemented
        return SymBool(z3.And(self.t, t), self.nl or nl)

    __rand__ = __and__

    def __or__(self, o):
        t, nl = self._o(o)
        if t is None:
            return NotImplemented
        return SymBool(z3.Or(self.t, t), self.nl or nl)

    __ror__ = __or__

    def __invert__(self):
        return SymBool(z3.Not(self.t), self.nl)

    def __eq__(self, o):
        t, nl = self._o(o)
        if t is None:
            return NotImplemented
        return SymBool(self.t == t, self.nl or nl)

    def __ne__(self, o):
        t, nl = self._o(o)
        if t is None:
            return NotImplemented
        return SymBool(self.t != t, self.nl or nl)

    def __hash__(self):
        return self.t.hash()

    def __int__(self):
        return int(bool(self))

    __index__ = __int__

    def as_real(self):
        return SymReal(z3.If(self.t, z3.RealVal(1), z3.RealVal(0)), nl=self.nl)

    # numpy's bool arithmetic with numbers (1.0 - (x > 0), mask * values, ...): True counts as 1, False as 0
    def __add__(self, o):
        return self.as_real() + (o.as_real() if isinstance(o, SymBool) else o)

    def __radd__(self, o):
        return o + self.as_real()

    def __sub__(self, o):
        return self.as_real() - (o.as_real() if isinstance(o, SymBool) else o)

    def __rsub__(self, o):
        return o - self.as_real()

    def __mul__(self, o):
        return self.as_real() * (o.as_real() if isinstance(o, SymBool) else o)

    def __rmul__(self, o):
        return o * self.as_real()

    def __truediv__(self, o):
        return self.as_real() / (o.as_real() if isinstance(o, SymBool) else o)

    def __rtruediv__(self, o):
        return o / self.as_real()

    def __neg__(self):
        return -self.as_real()

    def __float__(self):
        return float(bool(self))

    def __repr__(self):
        return f"B(term#{self.t.hash() & 0xFFFFFF:06x})"


# --------------------------------------------------------------------------- SymReal
def _is0(o):
    return is_concrete_number(o) and o == 0


def _is1(o):
    return is_concrete_number(o) and o == 1


_UF = {}


def uf(name, arity):
    key = (name, arity)
    if key not in _UF:
        _UF[key] = z3.Function(name, *([z3.RealSort()] * (arity + 1)))
    return _UF[key]


class SymReal(numbers.Real):
    """A real-valued z3 term behaving like a Python number.

    ``nl``  : the term contains a product/quotient of symbols (-> fresh NL solver)
    ``nan`` : optional z3 Bool "this value is NaN" (only used by the C02 NaN sub-check)
    ``const``: exact Fraction when the term is a literal constant, else None
    """

    # what a numpy scalar (the result of indexing a float64 array down to one entry) offers besides arithmetic
    base = None
    ndim = 0
    shape = ()
    size = 1

    def __init__(self, t, nl=False, nan=None, const=None):
        self.t = t
        self.nl = nl
        self.nan = nan
        self.const = const

    # -- helpers
    @staticmethod
    def lit(x):
        f = Fraction(x) if not isinstance(x, Fraction) else x
        return SymReal(z3.RealVal(str(f)), const=f)

    def _other(self, o):
        if isinstance(o, SymReal):
            return o
        if isinstance(o, np.ndarray):
            return None
        if isinstance(o, SymBool):
            return o.as_real()
        if is_concrete_number(o):
            if isinstance(o, (float, np.floating)) and (o != o or abs(o) == float("inf")):
                raise ModelGap("nan/inf constant met a symbolic value")
            return SymReal.lit(Fraction(float(o)) if isinstance(o, (float, np.floating)) else Fraction(int(o)) if not isinstance(o, Fraction) else o)
        return None

    def _mk(self, o, t, nl):
        return SymReal(t, nl=nl or self.nl or o.nl, nan=_or(self.nan, o.nan))

    def __add__(self, o):
        if _is0(o):
            return self
        o = self._other(o)
        if o is None:
            return NotImplemented
        if self.const is not None and o.const is not None and self.nan is None and o.nan is None:
            return SymReal.lit(self.const + o.const)
        if o.const is not None and o.const == 0 and o.nan is None:
            return self
        if self.const is not None and self.const == 0 and self.nan is None:
            return o
        return self._mk(o, self.t + o.t, False)

    def __radd__(self, o):
        if _is0(o):
            return self
        o = self._other(o)
        if o is None:
            return NotImplemented
        return o.__add__(self)

    def __sub__(self, o):
        if _is0(o):
            return self
        o = self._other(o)
        if o is None:
            return NotImplemented
        if self.const is not None and o.const is not None and self.nan is None and o.nan is None:
            return SymReal.lit(self.const - o.const)
        if o.const is not None and o.const == 0 and o.nan is None:
            return self
        return self._mk(o, self.t - o.t, False)

    def __rsub__(self, o):
        o = self._other(o)
        if o is None:
            return NotImplemented
        return o.__sub__(self)

    def __mul__(self, o):
        if _is1(o):
            return self
        o = self._other(o)
        if o is None:
            return NotImplemented
        if self.const is not None and o.const is not None and self.nan is None and o.nan is None:
            return SymReal.lit(self.const * o.const)
        if o.const is not None and o.const == 1 and o.nan is None:
            return self
        if self.const is not None and self.const == 1 and self.nan is None:
            return o
        if self.nan is None and o.nan is None and ((o.const is not None and o.const == 0) or (self.const is not None and self.const == 0)):
            return SymReal.lit(0)  # exact reals: 0 * x = 0 (NaN/inf are outside the model unless flagged)
        nl = self.const is None and o.const is None
        return self._mk(o, self.t * o.t, nl)

    def __rmul__(self, o):
        if _is1(o):
            return self
        o = self._other(o)
        if o is None:
            return NotImplemented
        return o.__mul__(self)

    def __truediv__(self, o):
        if _is1(o):
            return self
        o = self._other(o)
        if o is None:
            return NotImplemented
        if _DIV_IGNORE:
            # inside np.errstate(divide/invalid="ignore"): the code announces that it copes with zero divisors itself, so the
            # divisor is not assumed non-zero; the quotient carries the not-a-number flag where the divisor is zero (inf and nan
            # are not told apart: both are "not a number" here)
            if o.const is not None and o.const != 0 and o.nan is None:
                return self._mk(o, self.t / o.t, False)
            zero = z3.BoolVal(True) if (o.const is not None and o.const == 0) else o.t == 0
            safe = z3.RealVal(0) if (o.const is not None and o.const == 0) else z3.If(zero, z3.RealVal(0), self.t / o.t)
            return SymReal(safe, nl=True, nan=_or(_or(self.nan, o.nan), zero))
        if o.const is not None and o.nan is None:
            if o.const == 0:
                raise ModelGap("division by literal zero on a symbolic value")
            if self.const is not None and self.nan is None:
                return SymReal.lit(self.const / o.const)
            if o.const == 1:
                return self
            return self._mk(o, self.t / o.t, False)
        if _CTX is not None:
            _CTX.divisor(o.t)
            if _CTX.purify_div:
                # purified quotient: fresh q with q*b == a keeps nested divisions polynomial
                key = (self.t.hash(), o.t.hash())
                hit = _CTX._pur_cache.get(key)
                if hit is not None and hit[0].eq(self.t) and hit[1].eq(o.t):
                    return self._mk(o, hit[2], True)
                _CTX._nq_pur += 1
                q = z3.Real(f"quot{_CTX._nq_pur}")
                _CTX.assume(q * o.t == self.t)
                _CTX._pur_cache[key] = (self.t, o.t, q)
                return self._mk(o, q, True)
        return self._mk(o, self.t / o.t, True)

    def __rtruediv__(self, o):
        o = self._other(o)
        if o is None:
            return NotImplemented
        return o.__truediv__(self)

    def __neg__(self):
        if self.const is not None and self.nan is None:
            return SymReal.lit(-self.const)
        return SymReal(-self.t, nl=self.nl, nan=self.nan)

    def __pos__(self):
        return self

    def __abs__(self):
        if self.const is not None and self.nan is None:
            return SymReal.lit(abs(self.const))
        return SymReal(z3.If(self.t >= 0, self.t, -self.t), nl=self.nl, nan=self.nan)

    def __pow__(self, o):
        if isinstance(o, (int, np.integer)) and 0 <= int(o) <= 6:
            r = SymReal.lit(1)
            for _ in range(int(o)):
                r = r * self
            return r
        o = self._other(o)
        if o is None:
            return NotImplemented
        return self._mk(o, uf("pow", 2)(self.t, o.t), False)

    def __rpow__(self, o):
        o = self._other(o)
        if o is None:
            return NotImplemented
        return o.__pow__(self)

    # numpy object loops for sqrt/log/exp call these methods on the entries
    def sqrt(self):
        return SymReal(uf("sqrt", 1)(self.t), nl=self.nl, nan=self.nan)

    def log(self):
        return SymReal(uf("log", 1)(self.t), nl=self.nl, nan=self.nan)

    def exp(self):
        return SymReal(uf("exp", 1)(self.t), nl=self.nl, nan=self.nan)

    # -- comparisons
    def _cmp(self, o, f, eqlike=None):
        if isinstance(o, np.ndarray):
            return NotImplemented
        o2 = self._other(o) if not isinstance(o, SymReal) else o
        if o2 is None:
            return NotImplemented
        t = f(self.t, o2.t)
        n = _or(self.nan, o2.nan)
        if n is not None:
            # IEEE: every comparison with NaN is false, except != which is true
            t = z3.Or(n, t) if eqlike == "ne" else z3.And(z3.Not(n), t)
        return SymBool(t, self.nl or o2.nl)

    def __lt__(self, o):
        return self._cmp(o, lambda a, b: a < b)

    def __le__(self, o):
        return self._cmp(o, lambda a, b: a <= b)

    def __gt__(self, o):
        return self._cmp(o, lambda a, b: a > b)

    def __ge__(self, o):
        return self._cmp(o, lambda a, b: a >= b)

    def __eq__(self, o):
        if isinstance(o, (str, bytes, type(None), tuple, list, dict)):
            return False
        r = self._cmp(o, lambda a, b: a == b)
        return r

    def __ne__(self, o):
        if isinstance(o, (str, bytes, type(None), tuple, list, dict)):
            return True
        return self._cmp(o, lambda a, b: a != b, eqlike="ne")

    def __bool__(self):
        return ctx().branch(self.t != 0)

    def __hash__(self):
        c = _CTX
        if c is not None and c.cands:
            for k in c.cands:
                if c.branch(self.t == k):
                    return hash(k)
            if c.same_hash:
                return 0x5EED
        elif c is not None and c.same_hash:
            return 0x5EED
        return self.t.hash()

    def __float__(self):
        if self.const is not None and self.nan is None:
            return float(self.const)
        raise Concretised("float() of a symbolic value")

    def __trunc__(self):
        if self.const is not None:
            return int(self.const)
        c = ctx()
        tr = z3.If(self.t >= 0, z3.ToReal(z3.ToInt(self.t)), -z3.ToReal(z3.ToInt(-self.t)))
        for k in c.cands:
            if c.branch(tr == k):
                return int(k)
        return 10**9 + 7  # reserved integer outside every candidate set

    __int__ = __trunc__

    def __index__(self):
        raise Concretised("index() of a symbolic value")

    def __floor__(self):
        raise Concretised("floor")

    def __ceil__(self):
        raise Concretised("ceil")

    def __round__(self, n=None):
        raise Concretised("round")

    def __floordiv__(self, o):
        raise Concretised("floordiv")

    def __rfloordiv__(self, o):
        raise Concretised("floordiv")

    def __mod__(self, o):
        raise Concretised("mod")

    def __rmod__(self, o):
        raise Concretised("mod")

    def __repr__(self):
        # never pretty-print big terms (flodym puts values into error messages)
        if self.const is not None:
            return f"S({self.const})"
        if z3.is_const(self.t):
            return f"S({self.t.decl().name()})"
        return f"S(term#{self.t.hash() & 0xFFFFFF:06x})"

    __str__ = __repr__

    def __format__(self, spec):
        return repr(self)

    # pandas/numpy ask for these sometimes
    @property
    def real(self):
        return self

    @property
    def imag(self):
        return 0

    def conjugate(self):
        return self

    def __copy__(self):
        return self

    def __deepcopy__(self, memo):
        return self

    # numpy-scalar-like surface: full indexing of a float64 array yields np.float64, which has these
    def copy(self):
        return self

    shape = ()
    ndim = 0
    size = 1


def is_sym(x):
    return isinstance(x, (SymReal, SymBool))


# --------------------------------------------------------------------------- SymArr
def _sr(x):
    """entry -> SymReal"""
    if isinstance(x, SymReal):
        return x
    if isinstance(x, SymBool):
        return x.as_real()
    if is_concrete_number(x):
        if isinstance(x, (float, np.floating)):
            if x != x:
                # a concrete NaN entry: value irrelevant, flag set
                return SymReal(z3.RealVal(0), nan=z3.BoolVal(True))
            return SymReal.lit(Fraction(float(x)))
        return SymReal.lit(Fraction(int(x)) if not isinstance(x, Fraction) else x)
    raise ModelGap(f"non-numeric entry {type(x)} in a merged kernel")


def _has_sym(a):
    if isinstance(a, np.ndarray):
        if a.dtype != object:
            return False
        for x in a.flat:
            if isinstance(x, (SymReal, SymBool)):
                return True
        return False
    return isinstance(a, (SymReal, SymBool))


def _vec2(f, a, b):
    a = np.asarray(a, dtype=object) if not isinstance(a, np.ndarray) else a.view(np.ndarray)
    b = np.asarray(b, dtype=object) if not isinstance(b, np.ndarray) else b.view(np.ndarray)
    bc = np.broadcast(a, b)
    out = np.empty(bc.shape, dtype=object)
    out.flat = [f(x, y) for (x, y) in bc]
    return out.view(SymArr)


def _vec1(f, a):
    a = a.view(np.ndarray)
    out = np.empty(a.shape, dtype=object)
    out.flat = [f(x) for x in a.flat]
    return out.view(SymArr)


def _max2(x, y):
    x, y = _sr(x), _sr(y)
    if x.const is not None and y.const is not None and x.nan is None and y.nan is None:
        return x if x.const >= y.const else y
    # numpy float semantics: NaN propagates
    return SymReal(z3.If(x.t >= y.t, x.t, y.t), nl=x.nl or y.nl, nan=_or(x.nan, y.nan))


def _min2(x, y):
    x, y = _sr(x), _sr(y)
    if x.const is not None and y.const is not None and x.nan is None and y.nan is None:
        return x if x.const <= y.const else y
    return SymReal(z3.If(x.t <= y.t, x.t, y.t), nl=x.nl or y.nl, nan=_or(x.nan, y.nan))


def _abs1(x):
    return abs(_sr(x))


def _sign1(x):
    x = _sr(x)
    if x.const is not None and x.nan is None:
        return SymReal.lit((x.const > 0) - (x.const < 0))
    return SymReal(
        z3.If(x.t > 0, z3.RealVal(1), z3.If(x.t < 0, z3.RealVal(-1), z3.RealVal(0))), nl=x.nl, nan=x.nan
    )


def _sb(x):
    if isinstance(x, SymBool):
        return x
    if isinstance(x, (bool, np.bool_)):
        return SymBool(z3.BoolVal(bool(x)))
    if isinstance(x, SymReal):
        return x != 0
    if is_concrete_number(x):
        return SymBool(z3.BoolVal(bool(x != 0)))
    raise ModelGap(f"cannot treat {type(x)} as boolean")


_CMP = {
    np.less: lambda x, y: _sr(x) < _sr(y),
    np.less_equal: lambda x, y: _sr(x) <= _sr(y),
    np.greater: lambda x, y: _sr(x) > _sr(y),
    np.greater_equal: lambda x, y: _sr(x) >= _sr(y),
    np.equal: lambda x, y: _sr(x) == _sr(y),
    np.not_equal: lambda x, y: _sr(x) != _sr(y),
}


def _isnan1(x):
    if isinstance(x, SymReal):
        return SymBool(x.nan if x.nan is not None else z3.BoolVal(False))
    if isinstance(x, (float, np.floating)):
        return SymBool(z3.BoolVal(bool(x != x)))
    return SymBool(z3.BoolVal(False))


def _reduce(f2, arr, axis, keepdims=False, initial=None):
    a = arr.view(np.ndarray)
    if axis is None:
        flat = list(a.flat)
        if not flat:
            raise ValueError("zero-size array to reduction operation which has no identity")
        acc = flat[0]
        for x in flat[1:]:
            acc = f2(acc, x)
        return acc
    if isinstance(axis, tuple):
        out = arr
        for ax in sorted([x % a.ndim for x in axis], reverse=True):
            out = _reduce(f2, out, ax)
            if not isinstance(out, np.ndarray):
                return out
        return out
    axis = axis % a.ndim
    moved = np.moveaxis(a, axis, 0)
    if moved.shape[0] == 0:
        raise ValueError("zero-size array to reduction operation which has no identity")
    acc = moved[0].copy() if moved.ndim > 1 else moved[0]
    for i in range(1, moved.shape[0]):
        if moved.ndim > 1:
            acc = _vec2(f2, acc, moved[i]).view(np.ndarray)
        else:
            acc = f2(acc, moved[i])
    if isinstance(acc, np.ndarray):
        return acc.view(SymArr)
    return acc


class SymArr(np.ndarray):
    """object ndarray that (1) stays a SymArr through numpy calls and (2) computes
    comparison-like kernels as merged If/Or/And terms with float (NaN) semantics."""

    def __array_finalize__(self, obj):
        pass

    def __array_ufunc__(self, ufunc, method, *inputs, out=None, **kwargs):
        sym = any(_has_sym(i) for i in inputs)
        if sym and out is not None and method == "__call__" and len(out) == 1 and (
                ufunc in (np.maximum, np.minimum, np.absolute, np.sign) or ufunc in _CMP):
            # merged kernel with an explicit output buffer (np.clip(..., out=a), np.maximum(a, 0, out=a))
            res = self.__array_ufunc__(ufunc, method, *inputs, **kwargs)
            out[0][...] = res
            return out[0]
        if sym and out is None:
            if method == "__call__":
                if ufunc is np.maximum:
                    return _vec2(_max2, *inputs)
                if ufunc is np.minimum:
                    return _vec2(_min2, *inputs)
                if ufunc is np.absolute:
                    return _vec1(_abs1, inputs[0])
                if ufunc is np.sign:
                    return _vec1(_sign1, inputs[0])
                if ufunc in _CMP:
                    return _vec2(_CMP[ufunc], *inputs)
                if ufunc is np.isnan:
                    return _vec1(_isnan1, inputs[0])
                if ufunc is np.logical_or:
                    return _vec2(lambda x, y: _sb(x) | _sb(y), *inputs)
                if ufunc is np.logical_and:
                    return _vec2(lambda x, y: _sb(x) & _sb(y), *inputs)
                if ufunc is np.logical_not:
                    return _vec1(lambda x: ~_sb(x), inputs[0])
            elif method == "reduce":
                axis = kwargs.get("axis", 0)
                arr = inputs[0]
                if not isinstance(arr, np.ndarray):
                    arr = np.asarray(arr, dtype=object)
                initial = kwargs.get("initial")
                if kwargs.get("where", True) is not True or (initial is not None and ufunc not in (np.maximum, np.minimum)):
                    raise ModelGap("reduce with where/initial on symbolic values")
                f2 = None
                if ufunc is np.maximum:
                    f2 = _max2
                elif ufunc is np.minimum:
                    f2 = _min2
                elif ufunc is np.logical_or:
                    f2 = lambda x, y: _sb(x) | _sb(y)
                elif ufunc is np.logical_and:
                    f2 = lambda x, y: _sb(x) & _sb(y)
                if f2 is not None:
                    if arr.size == 0:
                        if ufunc is np.logical_or:
                            return False
                        if ufunc is np.logical_and:
                            return True
                    if initial is not None and arr.size == 0 and axis is None:
                        return initial
                    r = _reduce(f2, arr, axis)
                    if initial is not None:
                        # np.max(a, initial=v): v takes part in the comparison like one more entry
                        r = _vec2(f2, r, initial) if isinstance(r, np.ndarray) else f2(r, initial)
                    if kwargs.get("keepdims"):
                        raise ModelGap("keepdims in merged reduce")
                    if ufunc in (np.logical_or, np.logical_and) and not isinstance(r, np.ndarray):
                        r = _sb(r)
                    return r
        # default: numpy's own object loops
        wh = kwargs.get("where", True)
        if isinstance(wh, np.ndarray) and wh.dtype == object:
            if _has_sym(wh):
                if method == "__call__" and out is not None and len(out) == 1 and ufunc in (np.add, np.subtract, np.multiply, np.divide, np.true_divide) and len(inputs) == 2:
                    # out[i] = f(a_i, b_i) where the mask holds, unchanged elsewhere; a division only assumes its divisor
                    # non-zero where the mask holds
                    o = out[0]
                    a, b, m = np.broadcast_arrays(np.asarray(inputs[0], dtype=object), np.asarray(inputs[1], dtype=object), wh.view(np.ndarray))
                    res = np.empty(o.shape, dtype=object)
                    a, b, m = (np.broadcast_to(v, o.shape) for v in (a, b, m))
                    ov = o.view(np.ndarray)
                    for idx in np.ndindex(*o.shape):
                        mi = _sb(m[idx])
                        x, y = _sr(a[idx]), _sr(b[idx])
                        if ufunc in (np.divide, np.true_divide):
                            if _CTX is not None:
                                _CTX.assume(z3.Implies(mi.t, y.t != 0))
                            val = SymReal(x.t / y.t, nl=True, nan=_or(x.nan, y.nan))
                        else:
                            val = {np.add: x + y, np.subtract: x - y, np.multiply: x * y}[ufunc]
                        old = _sr(ov[idx])
                        res[idx] = SymReal(z3.If(mi.t, val.t, old.t), nl=val.nl or old.nl or mi.nl, nan=_or(val.nan, old.nan))
                    ov[...] = res
                    return o
                raise ModelGap("ufunc where= with a symbolic mask is not modelled")
            kwargs["where"] = wh.view(np.ndarray).astype(bool)
        args = [i.view(np.ndarray) if isinstance(i, SymArr) else i for i in inputs]
        if out is not None:
            if sym and any(isinstance(o, np.ndarray) and o.dtype != object for o in out):
                raise ModelGap("a ufunc writes symbolic values into a float64 out= buffer created outside the stand-ins")
            kwargs["out"] = tuple(o.view(np.ndarray) if isinstance(o, SymArr) else o for o in out)
        res = getattr(ufunc, method)(*args, **kwargs)
        if out is not None:
            return out[0] if len(out) == 1 else out
        return _rewrap(res)

    def __setitem__(self, key, value):
        # float64 semantics: assigning a 0-d array into a cell stores its scalar (an object
        # array would store the array object itself)
        if isinstance(value, np.ndarray) and value.ndim == 0 and value.dtype == object:
            value = value[()]
        if isinstance(key, np.ndarray) and key.dtype == object and key.shape == self.shape and any(isinstance(m, SymBool) for m in key.flat):
            # a[mask] = v with a symbolic boolean mask of a's own shape: every entry becomes ite(mask, v, old) -- no fork
            if isinstance(value, np.ndarray) and value.shape != ():
                raise ModelGap("masked assignment of an array through a symbolic mask (the positions depend on the mask)")
            v = _sr(value[()] if isinstance(value, np.ndarray) else value)
            for idx in np.ndindex(*self.shape):
                m = key[idx]
                if isinstance(m, SymBool):
                    old = _sr(self[idx])
                    super().__setitem__(idx, SymReal(z3.If(m.t, v.t, old.t), nl=v.nl or old.nl or m.nl, nan=old.nan if v.nan is None else z3.If(m.t, v.nan, old.nan if old.nan is not None else z3.BoolVal(False))))
                elif bool(m):
                    super().__setitem__(idx, value[()] if isinstance(value, np.ndarray) else value)
            return
        super().__setitem__(key, value)

    def astype(self, dtype, *a, **k):
        if dtype in (int, bool, np.int64, np.int32, np.bool_) and _has_sym(self):
            def conv(x):
                if isinstance(x, SymBool):
                    return x.as_real()
                if isinstance(x, SymReal):
                    raise Concretised("astype(int) of a symbolic real")
                return int(x)
            return _vec1(conv, self)
        if dtype in (float, np.float64, np.float32) and _has_sym(self):
            return self.copy()
        return self.view(np.ndarray).astype(dtype, *a, **k)


def _rewrap(res):
    if isinstance(res, np.ndarray) and res.dtype == object and not isinstance(res, SymArr):
        return res.view(SymArr)
    if isinstance(res, tuple):
        return tuple(_rewrap(r) for r in res)
    return res


def symarr(a):
    a = np.asarray(a, dtype=object)
    return a.view(SymArr)


# --------------------------------------------------------------------------- SymLetter
class SymLetter(str):
    """One-character str whose equality with another SymLetter is a solver decision."""

    def __new__(cls, char, ident):
        s = super().__new__(cls, char)
        s.ident = ident  # z3 Int
        return s

    def __eq__(self, o):
        if isinstance(o, SymLetter):
            if o is self:
                return True
            return ctx().branch(self.ident == o.ident)
        if isinstance(o, str):
            return False if len(o) != 1 else ctx().branch(self.ident == _plain_ident(o))
        return NotImplemented

    def __ne__(self, o):
        r = self.__eq__(o)
        if r is NotImplemented:
            return r
        return not r

    def __hash__(self):
        return 0x1E77E4


_PLAIN = {}


def _plain_ident(ch):
    # plain one-char strings get fixed negative identities (never equal to symbolic idents >= 0
    # unless the solver is allowed to; harness assumes idents >= 0 for SymLetters)
    return z3.IntVal(-1 - ord(ch))
